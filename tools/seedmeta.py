#!/usr/bin/env python3
"""Record the outcome of the last tools/allseeds.sh / tools/allharmless.sh run in the meta.json of every seed / edit.
usage: tools/seedmeta.py [seedlogs dir] [harmlesslogs dir]"""
import json, os, re, sys
sl = sys.argv[1] if len(sys.argv) > 1 else "/tmp/seedlogs"
hl = sys.argv[2] if len(sys.argv) > 2 else "/tmp/harmlesslogs"
n = det = 0
for d in sorted(os.listdir("/verif/seeded")):
    lp = os.path.join(sl, d + ".log")
    mp = os.path.join("/verif/seeded", d, "meta.json")
    if not os.path.exists(lp) or not os.path.exists(mp):
        continue
    lines = open(lp).read().splitlines()
    m = json.load(open(mp))
    ok = bool(lines) and lines[0].endswith(": DETECTED")
    n += 1; det += ok
    m["check_result"] = {"cmd": "tools/seedscratch.sh %s (quick check against a scratch copy of /repo with the patch applied; final state of the checks)" % d,
                         "detected": ok, "exit": 1 if ok else 0,
                         "failed_obligations": [l.strip() for l in lines[1:] if "obligation" in l][:4]}
    json.dump(m, open(mp, "w"), indent=1)
print("seeds: %d of %d detected" % (det, n))
n = quiet = 0
for d in sorted(os.listdir("/verif/harmless")):
    lp = os.path.join(hl, d + ".log")
    mp = os.path.join("/verif/harmless", d, "meta.json")
    if not os.path.exists(lp) or not os.path.exists(mp):
        continue
    lines = open(lp).read().splitlines()
    m = json.load(open(mp))
    ok = bool(lines) and "quiet" in lines[0]
    n += 1; quiet += ok
    m["check_result"] = {"cmd": "tools/harmlessscratch.sh %s (final state of the checks)" % d, "quiet": ok,
                         "failed_obligations": [l.strip() for l in lines[1:] if "obligation" in l][:4]}
    json.dump(m, open(mp, "w"), indent=1)
print("harmless edits: %d of %d quiet" % (quiet, n))
