#!/usr/bin/env python3
"""Print the markdown tables of DESIGN.md section 10.4 (seeded changes) and 10.7 (harmless edits) from the meta.json files.
usage: tools/mkseedtable.py seeds [batch] | harmless"""
import json, os, re, sys
def short(s, n=150):
    s = " ".join(s.split())
    return s if len(s) <= n else s[:n - 3] + "..."
def obl(m):
    cr = m.get("check_result") or {}
    fo = cr.get("failed_obligations") or cr.get("lines") or []
    for l in fo:
        l = l.strip()
        mm = re.match(r"(?:failed|vanished) obligation: (.*?)(?:  \[|$)", l)
        if mm:
            return "`" + mm.group(1).strip() + "`"
    return ""
what = sys.argv[1] if len(sys.argv) > 1 else "seeds"
if what == "seeds":
    batch = int(sys.argv[2]) if len(sys.argv) > 2 else None
    print("| Seed | Change | First run | Now caught by |")
    print("|---|---|---|---|")
    for d in sorted(os.listdir("/verif/seeded")):
        m = json.load(open("/verif/seeded/%s/meta.json" % d))
        b = m.get("batch", 1)
        if batch and b != batch:
            continue
        first = "missed" if m.get("first_run_missed") else "caught"
        det = (m.get("check_result") or {}).get("detected")
        print("| %s | %s | %s | %s |" % (d, short(m.get("what", "")), first, obl(m) if det else "**NOT DETECTED**"))
else:
    print("| Edit | Kind | What | Quick check on the edited tree |")
    print("|---|---|---|---|")
    for d in sorted(os.listdir("/verif/harmless")):
        m = json.load(open("/verif/harmless/%s/meta.json" % d))
        cr = m.get("check_result") or {}
        first = m.get("first_result", "")
        now = "quiet" if cr.get("quiet") else "FALSE ALARM (remains): " + obl(m)
        if first == "false alarm" and cr.get("quiet"):
            now = "false alarm, then quiet"
        print("| %s | %s | %s | %s |" % (d, m.get("kind", ""), short(m.get("what", ""), 170), now))
