#!/bin/sh
# usage: tools/allharmless.sh [jobs]  — runs every behaviour-preserving edit on its own scratch copy (tools/harmlessscratch.sh);
# prints one line each and keeps the full output in ${HARMLESSLOGS:-/tmp/harmlesslogs}/<id>.log
cd /verif || exit 2
J="${1:-3}"
OUT="${HARMLESSLOGS:-/tmp/harmlesslogs}"; mkdir -p "$OUT"; export OUT
ls -d harmless/C*-* | xargs -n1 basename | xargs -P "$J" -I{} sh -c 'tools/harmlessscratch.sh {} > "$OUT/{}.log" 2>&1; head -1 "$OUT/{}.log"'
