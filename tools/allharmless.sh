#!/bin/sh
# usage: tools/allharmless.sh [jobs]  — runs every behaviour-preserving edit on its own scratch copy (tools/harmlessscratch.sh); prints one line each
cd /verif || exit 2
J="${1:-3}"
ls -d harmless/C*-* | xargs -n1 basename | xargs -P "$J" -I{} sh -c 'tools/harmlessscratch.sh {} 2>&1 | head -1'
