#!/usr/bin/env python3
"""Confirm a seeded breaking change in a scratch worktree and run the /verif check against it.
usage: seedrun.py confirm <worktree> <seeded_dir> <existing_test_pkgs...>   -> prints JSON verdict
       seedrun.py check   <PROP> <patch.diff>                                -> applies to /repo, runs ./check, reverts
"""
import json, os, re, subprocess, sys, shutil

ENV = dict(os.environ, GOFLAGS="-mod=mod", GOPROXY="off", GOSUMDB="off", GOTOOLCHAIN="local")

def sh(cmd, cwd, timeout=1200):
    p = subprocess.run(cmd, shell=True, cwd=cwd, env=ENV, stdout=subprocess.PIPE, stderr=subprocess.STDOUT, text=True, timeout=timeout)
    return p.returncode, p.stdout

def confirm(wt, sd, pkgs):
    readme = open(os.path.join(sd, "README.txt")).read()
    cps = re.findall(r'(?:cp|copy)\s+(seeded/\S+)\s+(?:to\s+)?(\S+_test\.go)', readme)
    tests = re.findall(r'(go test [^\n]*-run[^\n]*)', readme)
    if not cps or not tests:
        return {"error": "cannot parse README"}
    src, dst = cps[0]
    src = os.path.join(sd, os.path.basename(src))
    dstp = os.path.join(wt, dst)
    res = {}
    try:
        shutil.copy(src, dstp)
        rc, out = sh(tests[0], wt)
        res["demo_clean_pass"] = (rc == 0)
        os.remove(dstp)
        rc, out = sh("git apply " + os.path.join(sd, "patch.diff"), wt)
        if rc != 0:
            return {"error": "patch does not apply: " + out}
        rc, out = sh("go build ./...", wt)
        res["build_ok"] = (rc == 0)
        rc, out = sh("go test -vet=off -count=1 " + " ".join(pkgs), wt)
        res["existing_tests_pass"] = (rc == 0)
        if rc != 0:
            res["existing_tests_out"] = out[-1500:]
        shutil.copy(src, dstp)
        rc, out = sh(tests[0], wt)
        res["demo_patched_fails"] = (rc != 0)
        res["demo_cmd"] = tests[0]
        res["demo_dest"] = dst
    finally:
        if os.path.exists(dstp):
            os.remove(dstp)
        sh("git apply -R " + os.path.join(sd, "patch.diff"), wt)
    res["confirmed"] = all(res.get(k) for k in ("demo_clean_pass", "build_ok", "existing_tests_pass", "demo_patched_fails"))
    return res

def check(prop, patch):
    rc, out = sh("git -C /repo apply " + patch, "/verif")
    if rc != 0:
        return {"error": "patch does not apply to /repo: " + out}
    try:
        rc, out = sh("./check %s quick" % prop, "/verif", timeout=3600)
    finally:
        files = re.findall(r'^\+\+\+ b/(\S+)', open(patch).read(), re.M)
        sh("git -C /repo checkout -- " + " ".join(files), "/verif")
    viol = [l for l in out.splitlines() if l.startswith("VIOLATION") or "failed obligation" in l or "vanished" in l or "reason:" in l]
    return {"exit": rc, "detected": rc == 1 and any(l.startswith("VIOLATION") for l in out.splitlines()), "lines": viol[:8], "tail": out.splitlines()[-1:] }

if __name__ == "__main__":
    if sys.argv[1] == "confirm":
        print(json.dumps(confirm(sys.argv[2], sys.argv[3], sys.argv[4:]), indent=1))
    else:
        print(json.dumps(check(sys.argv[2], sys.argv[3]), indent=1))
