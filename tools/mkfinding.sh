#!/bin/sh
# usage: tools/mkfinding.sh <finding-id> <test source file> <package dir relative to /repo> <test name regex> <fixed file(s) relative to /repo ...>
# Copies a demonstration test into findings/<id>/demo_test.go and runs it through `go test -overlay` against /repo twice:
# with the working tree as it is (must pass) and with the named files stashed back to HEAD (must fail). Nothing is left in /repo.
cd /verif || exit 2
export GOFLAGS=-mod=mod GOPROXY=off GOSUMDB=off GOTOOLCHAIN=local
ID="$1"; SRC="$2"; PKG="$3"; RUN="$4"; shift 4
mkdir -p "findings/$ID"
[ "$SRC" != "findings/$ID/demo_test.go" ] && cp "$SRC" "findings/$ID/demo_test.go"
OV=$(mktemp /tmp/ov-XXXXXX.json)
printf '{"Replace": {"/repo/%s/zz_finding_test.go": "/verif/findings/%s/demo_test.go"}}' "$PKG" "$ID" > "$OV"
echo "== with the fix (must pass)"
(cd /repo && go test -overlay "$OV" -vet=off -timeout 300s -count=1 -run "$RUN" "./$PKG" 2>&1 | grep -v '^time=' | tail -4)
if [ $# -gt 0 ]; then
  echo "== without the fix (must fail)"
  (cd /repo && git stash push -q -- "$@" && { go test -overlay "$OV" -vet=off -timeout 300s -count=1 -run "$RUN" "./$PKG" 2>&1 | grep -v '^time=' | tail -6; git stash pop -q; })
fi
rm -f "$OV"
echo "replay: printf '{\"Replace\": {\"/repo/$PKG/zz_finding_test.go\": \"/verif/findings/$ID/demo_test.go\"}}' > /tmp/ov.json; cd /repo && go test -overlay /tmp/ov.json -vet=off -timeout 300s -count=1 -run '$RUN' ./$PKG"
