#!/usr/bin/env python3
"""Regenerate the numbers of DESIGN.md section 10.2 (functions under contract, obligations, wall time) from the
committed evidence files. usage: tools/mktable.py  (rewrites the table rows in place, keeps the last column)"""
import json, re
p = '/verif/DESIGN.md'
s = open(p).read()
i = s.index('### 10.2 Status per property')
j = s.index('All 20 properties are claimed', i)
block = s[i:j]
out = []
for line in block.splitlines():
    m = re.match(r'\| (C\d\d) \| (\d+) \| (\d+) \| ([^|]+) \| (.*) \|$', line)
    if m:
        pid = m.group(1)
        try:
            ev = json.load(open('/verif/evidence/%s.json' % pid))
            c = ev['coverage']
            nf = len(c.get('functions_under_contract', []))
            nobl = c.get('obligations', 0)
            cov = c.get('vacuity_covers', {}).get('generated', 0)
            wall = ev.get('wall_s', 0)
            line = '| %s | %d | %d (+%d covers) | %d s | %s |' % (pid, nf, nobl, cov, round(wall), m.group(5))
        except Exception as e:
            pass
    else:
        m2 = re.match(r'\| (C\d\d) \| (\d+) \| (\d+) \(\+\d+ covers\) \| ([^|]+) \| (.*) \|$', line)
        if m2:
            pid = m2.group(1)
            ev = json.load(open('/verif/evidence/%s.json' % pid))
            c = ev['coverage']
            line = '| %s | %d | %d (+%d covers) | %d s | %s |' % (pid, len(c.get('functions_under_contract', [])), c.get('obligations', 0),
                                                                 c.get('vacuity_covers', {}).get('generated', 0), round(ev.get('wall_s', 0)), m2.group(5))
    out.append(line)
s = s[:i] + '\n'.join(out) + '\n' + s[j:]
open(p, 'w').write(s)
print('table regenerated')
