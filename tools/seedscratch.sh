#!/bin/sh
# usage: tools/seedscratch.sh <seed-id>   (e.g. C14-2)
# Applies seeded/<seed-id>/patch.diff to a scratch copy of /repo's current tree (removed afterwards) and runs the quick check
# of the seed's property against that copy. Prints the verdict and the failed obligations. /repo is not touched.
cd /verif || exit 2
export GOFLAGS=-mod=mod GOPROXY=off GOSUMDB=off GOTOOLCHAIN=local
SEED="$1"; PROP="${SEED%-*}"
S=$(mktemp -d "${TMPDIR:-/tmp}/govc-seed-XXXXXX") || exit 2
(cd "${VERIF_REPO:-/repo}" && tar --exclude=.git -cf - .) | (cd "$S" && tar -xf -)
if ! (cd "$S" && patch -p1 -s --no-backup-if-mismatch < "/verif/seeded/$SEED/patch.diff" >/dev/null 2>&1); then
  echo "$SEED: patch does not apply"; rm -rf "$S"; exit 3
fi
OUT=$(VERIF_REPO="$S" GOVC_NO_EVIDENCE=1 GOVC_REPLAY_DIR="$S/.replay" ${GOVC_BIN:-bin/govc} check "$PROP" quick 2>&1)
RC=$?
rm -rf "$S"
if [ $RC -eq 1 ] && echo "$OUT" | grep -q '^VIOLATION'; then echo "$SEED: DETECTED"; else echo "$SEED: NOT DETECTED (exit $RC)"; fi
echo "$OUT" | grep -E 'obligation:|reason:' | head -6 | cut -c1-330
