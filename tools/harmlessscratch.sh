#!/bin/sh
# usage: tools/harmlessscratch.sh <id>   (e.g. C14-2)
# Applies harmless/<id>/patch.diff (a behaviour-preserving edit) to a scratch copy of /repo's current tree (removed
# afterwards) and runs the quick check of the property against that copy. The check must NOT report a violation.
cd /verif || exit 2
export GOFLAGS=-mod=mod GOPROXY=off GOSUMDB=off GOTOOLCHAIN=local
ID="$1"; PROP="${ID%-*}"
S=$(mktemp -d "${TMPDIR:-/tmp}/govc-harmless-XXXXXX") || exit 2
(cd "${VERIF_REPO:-/repo}" && tar --exclude=.git -cf - .) | (cd "$S" && tar -xf -)
if ! (cd "$S" && patch -p1 -s --no-backup-if-mismatch < "/verif/harmless/$ID/patch.diff" >/dev/null 2>&1); then
  echo "$ID: patch does not apply"; rm -rf "$S"; exit 3
fi
OUT=$(VERIF_REPO="$S" GOVC_NO_EVIDENCE=1 GOVC_REPLAY_DIR="$S/.replay" ${GOVC_BIN:-bin/govc} check "$PROP" quick 2>&1)
RC=$?
rm -rf "$S"
if [ $RC -eq 0 ]; then echo "$ID: quiet (exit 0)"; else echo "$ID: FALSE ALARM (exit $RC)"; fi
echo "$OUT" | grep -E 'obligation:|reason:' | head -6 | cut -c1-300
