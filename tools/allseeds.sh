#!/bin/sh
# usage: tools/allseeds.sh [jobs]  — runs every seeded breaking change on its own scratch copy (tools/seedscratch.sh); prints one line each
cd /verif || exit 2
J="${1:-3}"
ls -d seeded/C*-* | xargs -n1 basename | xargs -P "$J" -I{} sh -c 'tools/seedscratch.sh {} 2>&1 | head -1'
