#!/bin/sh
# usage: tools/allseeds.sh [jobs]  — runs every seeded breaking change on its own scratch copy (tools/seedscratch.sh); prints one
# line each and keeps the full output (failed obligations) in ${SEEDLOGS:-/tmp/seedlogs}/<seed>.log for tools/seedmeta.py
cd /verif || exit 2
J="${1:-3}"
OUT="${SEEDLOGS:-/tmp/seedlogs}"; mkdir -p "$OUT"; export OUT
ls -d seeded/C*-* | xargs -n1 basename | xargs -P "$J" -I{} sh -c 'tools/seedscratch.sh {} > "$OUT/{}.log" 2>&1; head -1 "$OUT/{}.log"'
