package task

import (
	"testing"

	"github.com/AliceO2Group/Control/common"
	"github.com/AliceO2Group/Control/common/controlmode"
	"github.com/AliceO2Group/Control/common/gera"
	"github.com/AliceO2Group/Control/common/utils/uid"
	"github.com/AliceO2Group/Control/core/task/taskclass"
	"github.com/spf13/viper"
)

type c14Parent struct {
	parentRole
	stack map[string]string
}

func (p *c14Parent) ConsolidatedVarStack() (map[string]string, error) {
	out := map[string]string{}
	for k, v := range p.stack {
		out[k] = v
	}
	return out, nil
}
func (p *c14Parent) GetEnvironmentId() uid.ID { return uid.New() }
func (p *c14Parent) GetPath() string          { return "root.task" }
func (p *c14Parent) GetTaskTraits() Traits    { return Traits{} }

func TestC14ClassVarsOverClassDefaults(t *testing.T) {
	viper.Set("config_endpoint", "mock://")
	val := "{{ foo }}"
	cls := &taskclass.Class{
		Defaults: gera.MakeMapWithMap(map[string]string{"foo": "from-class-defaults"}),
		Vars:     gera.MakeMapWithMap(map[string]string{"foo": "from-class-vars"}),
		Command:  &common.CommandInfo{Value: &val},
	}
	cls.Control.Mode = controlmode.DIRECT
	parent := &c14Parent{stack: map[string]string{"other": "x"}}
	tk := &Task{name: "t", parent: parent, GetTaskClass: func() *taskclass.Class { return cls }}
	if err := tk.BuildTaskCommand(parent); err != nil {
		t.Fatalf("BuildTaskCommand: %v", err)
	}
	got := *tk.commandInfo.Value
	if got != "from-class-vars" {
		t.Fatalf("key defined in class defaults and class vars, not in the workflow: command sees %q, vars should win over defaults", got)
	}
}
