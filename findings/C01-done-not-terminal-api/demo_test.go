package core

// C01 audit: DONE is terminal. A control request issued while the teardown of the environment is in progress waits for
// the transition mutex, finds the environment DONE, fails (CONFIGURE and GO_ERROR are both illegal in DONE) and then
// RpcServer.ControlEnvironment forces the state to ERROR (server.go:644): DONE -> ERROR, reported in the reply.

import (
	"context"
	"reflect"
	"testing"
	"time"
	"unsafe"

	"github.com/AliceO2Group/Control/common/event"
	"github.com/AliceO2Group/Control/common/utils/uid"
	"github.com/AliceO2Group/Control/core/environment"
	"github.com/AliceO2Group/Control/core/integration"
	"github.com/AliceO2Group/Control/core/integration/testplugin"
	pb "github.com/AliceO2Group/Control/core/protos"
	"github.com/AliceO2Group/Control/core/task"
	"github.com/AliceO2Group/Control/core/task/taskop"
	"github.com/AliceO2Group/Control/core/workflow"
	"github.com/spf13/viper"
)

//go:linkname c01NewEnvironment github.com/AliceO2Group/Control/core/environment.newEnvironment
func c01NewEnvironment(userVars map[string]string, newId uid.ID) (*environment.Environment, error)

func c01Field(ptrToStruct interface{}, name string) reflect.Value {
	f := reflect.ValueOf(ptrToStruct).Elem().FieldByName(name)
	return reflect.NewAt(f.Type(), unsafe.Pointer(f.UnsafeAddr())).Elem()
}

type c01Rig struct {
	tm    *task.Manager
	mgr   *environment.Manager
	env   *environment.Environment
	envId uid.ID
	srv   *RpcServer
}

// c01Setup: real environment manager (with its event loop), real environment, fake task manager that answers a
// ReleaseTasks request after releaseDelay with "all released" and a Configure/Transition request after cmdDelay with success.
func c01Setup(t *testing.T, state string, releaseDelay, cmdDelay time.Duration) *c01Rig {
	integration.Reset()
	integration.RegisterPlugin("testplugin", "testPluginEndpoint", testplugin.NewPlugin)
	viper.Set("integrationPlugins", []string{"testplugin"})
	viper.Set("testPluginEndpoint", "http://example.com")
	viper.Set("config_endpoint", "mock://")

	evCh := make(chan event.Event)
	tm := &task.Manager{MessageChannel: make(chan *task.TaskmanMessage)}
	go func() {
		for msg := range tm.MessageChannel {
			msg := msg
			go func() {
				switch msg.GetMessageType() {
				case taskop.ReleaseTasks:
					time.Sleep(releaseDelay)
					evCh <- event.NewTasksReleasedEvent(msg.GetEnvironmentId(), []string{}, nil)
				case taskop.ConfigureTasks, taskop.TransitionTasks:
					time.Sleep(cmdDelay)
					evCh <- event.NewTasksStateChangedEvent(msg.GetEnvironmentId(), []string{}, nil)
				}
			}()
		}
	}()
	mgr := environment.NewEnvManager(tm, evCh)

	envId := uid.New()
	env, err := c01NewEnvironment(map[string]string{}, envId)
	if err != nil || env == nil {
		t.Fatalf("cannot create environment: %v", err)
	}
	wf := workflow.NewAggregatorRole("root", []workflow.Role{})
	workflow.LinkChildrenToParents(wf)
	c01Field(env, "workflow").Set(reflect.ValueOf(wf))
	env.UserVars.Set("environment_id", envId.String())
	env.Sm.SetState(state)

	c01Field(mgr, "m").SetMapIndex(reflect.ValueOf(envId), reflect.ValueOf(env))
	c01Field(mgr, "pendingStateChangeCh").SetMapIndex(reflect.ValueOf(envId), c01Field(env, "stateChangedCh"))

	return &c01Rig{tm: tm, mgr: mgr, env: env, envId: envId,
		srv: &RpcServer{state: &globalState{environments: mgr, taskman: tm}, envStreams: newSafeStreamsMap()}}
}

func TestC01ControlRequestDuringTeardownLeavesDone(t *testing.T) {
	r := c01Setup(t, "DEPLOYED", 400*time.Millisecond, 0)

	destroyed := make(chan error, 1)
	go func() {
		_, e := r.srv.DestroyEnvironment(context.Background(), &pb.DestroyEnvironmentRequest{Id: r.envId.String(), KeepTasks: true})
		destroyed <- e
	}()
	time.Sleep(150 * time.Millisecond) // the teardown is now waiting for its first release round, holding the transition mutex

	type result struct {
		reply *pb.ControlEnvironmentReply
		err   error
	}
	resCh := make(chan result, 1)
	go func() {
		rep, e := r.srv.ControlEnvironment(context.Background(), &pb.ControlEnvironmentRequest{Id: r.envId.String(), Type: pb.ControlEnvironmentRequest_CONFIGURE})
		resCh <- result{rep, e}
	}()

	select {
	case e := <-destroyed:
		if e != nil {
			t.Fatalf("teardown failed: %v", e)
		}
	case <-time.After(20 * time.Second):
		t.Fatal("DestroyEnvironment did not return")
	}
	var res result
	select {
	case res = <-resCh:
	case <-time.After(20 * time.Second):
		t.Fatal("ControlEnvironment did not return")
	}
	if res.err == nil {
		t.Errorf("CONFIGURE on a destroyed environment returned no error")
	}
	if res.reply != nil && res.reply.State != "DONE" {
		t.Errorf("reply reports state %s for an environment whose teardown completed (DONE is terminal)", res.reply.State)
	}
	if st := r.env.CurrentState(); st != "DONE" {
		t.Fatalf("environment left DONE: state is now %s", st)
	}
}
