package environment

// Replay for the C09 finding "termination event of a hook that already timed out crashes the core".
//
// Two task hooks are triggered at the same moment. The first one times out (its timer entry is removed) while the second is
// still pending, so the collecting goroutine of runTasksAsHooks keeps running; then the first hook's process ends after all
// and its BASIC_TASK_TERMINATED event arrives. runTasksAsHooks did hookTimers[tid].Stop() without checking that the
// entry is still there: Stop on a nil *time.Timer panics in a goroutine of its own, which takes the whole core down.
// Documented behaviour (C09): several hooks failing at the same point are reported together without harming the core.

import (
	"reflect"
	"testing"
	"time"
	"unsafe"

	"github.com/AliceO2Group/Control/common"
	"github.com/AliceO2Group/Control/common/event"
	"github.com/AliceO2Group/Control/common/gera"
	"github.com/AliceO2Group/Control/common/utils/uid"
	"github.com/AliceO2Group/Control/core/task"
	"github.com/AliceO2Group/Control/core/task/channel"
	"github.com/AliceO2Group/Control/core/task/sm"
	"github.com/AliceO2Group/Control/core/task/taskclass"
	pb "github.com/AliceO2Group/Control/executor/protos"
	"github.com/mesos/mesos-go/api/v1/lib"
	"github.com/spf13/viper"
)

type c09fParent struct {
	traits task.Traits
	envId  uid.ID
	kv     gera.Map[string, string]
}

func (p *c09fParent) UpdateStatus(task.Status)                    {}
func (p *c09fParent) UpdateState(sm.State)                        {}
func (p *c09fParent) GetPath() string                             { return "root.hook" }
func (p *c09fParent) GetTaskClass() string                        { return "hookclass" }
func (p *c09fParent) GetTaskTraits() task.Traits                  { return p.traits }
func (p *c09fParent) SetTask(*task.Task)                          {}
func (p *c09fParent) GetEnvironmentId() uid.ID                    { return p.envId }
func (p *c09fParent) CollectOutboundChannels() []channel.Outbound { return nil }
func (p *c09fParent) GetDefaults() gera.Map[string, string]       { return p.kv }
func (p *c09fParent) GetVars() gera.Map[string, string]           { return p.kv }
func (p *c09fParent) GetUserVars() gera.Map[string, string]       { return p.kv }
func (p *c09fParent) ConsolidatedVarStack() (map[string]string, error) {
	return map[string]string{}, nil
}
func (p *c09fParent) CollectInboundChannels() []channel.Inbound { return nil }
func (p *c09fParent) SendEvent(event.Event)                     {}
func (p *c09fParent) GetName() string                           { return "hook" }

func c09fSetField(obj interface{}, field string, value interface{}) {
	f := reflect.ValueOf(obj).Elem().FieldByName(field)
	reflect.NewAt(f.Type(), unsafe.Pointer(f.UnsafeAddr())).Elem().Set(reflect.ValueOf(value))
}

func c09fHook(taskId, name, timeout string, envId uid.ID) *task.Task {
	t := &task.Task{}
	t.GetTaskClass = func() *taskclass.Class { return &taskclass.Class{} }
	t.SetParent(&c09fParent{traits: task.Traits{Trigger: "before_CONFIGURE", Await: "before_CONFIGURE", Timeout: timeout, Critical: true},
		envId: envId, kv: gera.MakeMap[string, string]()})
	cmd := "/bin/" + name
	tci := &common.TaskCommandInfo{}
	tci.Value = &cmd
	c09fSetField(t, "taskId", taskId)
	c09fSetField(t, "name", name)
	c09fSetField(t, "hostname", "localhost")
	c09fSetField(t, "commandInfo", tci)
	return t
}

func c09fTerminated(taskId string, exitCode int) *event.BasicTaskTerminated {
	origin := event.DeviceEventOrigin{TaskId: mesos.TaskID{Value: taskId}}
	btt := event.NewDeviceEvent(origin, pb.DeviceEventType_BASIC_TASK_TERMINATED).(*event.BasicTaskTerminated)
	btt.ExitCode = exitCode
	btt.VoluntaryTermination = true
	btt.FinalMesosState = mesos.TASK_FINISHED
	if exitCode != 0 {
		btt.FinalMesosState = mesos.TASK_FAILED
	}
	return btt
}

func TestC09TerminationAfterTimeout(t *testing.T) {
	viper.Set("config_endpoint", "mock://")
	envId, err := uid.FromString("2oDvieFrVTi")
	if err != nil {
		t.Fatal(err)
	}
	env, err := newEnvironment(map[string]string{}, envId)
	if err != nil || env == nil {
		t.Fatalf("cannot create environment: %v", err)
	}
	slow := c09fHook("hook-slow", "slow-hook", "100ms", envId)
	other := c09fHook("hook-other", "other-hook", "10s", envId)

	env.hookHandlerF = func(hooks task.Tasks) error {
		go func() {
			// the slow hook ends 200 ms after its 100 ms timeout fired; the other one, fine, a little later
			time.Sleep(300 * time.Millisecond)
			env.incomingEvents <- c09fTerminated("hook-slow", 1)
			time.Sleep(100 * time.Millisecond)
			env.incomingEvents <- c09fTerminated("hook-other", 0)
		}()
		return nil
	}

	done := make(chan map[*task.Task]error, 1)
	go func() { done <- env.runTasksAsHooks(task.Tasks{slow, other}) }()
	select {
	case errs := <-done:
		if errs[slow] == nil {
			t.Errorf("the hook that timed out is not reported as failed: %v", errs)
		}
		if errs[other] != nil {
			t.Errorf("the hook that finished with exit code 0 within its timeout is reported as failed: %v", errs[other])
		}
	case <-time.After(15 * time.Second):
		t.Fatal("runTasksAsHooks did not return")
	}
}
