package workflow

// Replay for the C15 finding "an iterator whose role has an enabled EXPRESSION vanishes with all its children".
//
// C15: "Roles whose enabled expression is false are absent together with their whole subtree ..., an iterator yields exactly
// one child per element of its range, in order, with the iteration variable bound".
// iteratorRole.IsEnabled - what the parent's filter asks once the iterator was processed - looked at the iterator's own
// template, which is never processed (its copies are): an enabled expression there is still the raw "{{ ... }}" text and
// does not read as "true", so the whole iterator was dropped, whatever the expression evaluates to for each element.

import (
	"strings"
	"testing"

	"github.com/AliceO2Group/Control/core/repos"
	"github.com/spf13/viper"
	"gopkg.in/yaml.v3"
)

const c15iWorkflow = `
name: root
defaults:
  hosts: '["h1","h2","h3"]'
roles:
  - name: "host-{{ it }}"
    for:
      range: "{{ hosts }}"
      var: it
    enabled: "%ENABLED%"
    task:
      load: readout
  - name: "monitor"
    task:
      load: monitor
`

func TestC15IteratorEnabledExpression(t *testing.T) {
	want := map[string]string{
		"true":             "root root.host-h1 root.host-h2 root.host-h3 root.monitor",
		"false":            "root root.monitor",
		"{{ 'true' }}":     "root root.host-h1 root.host-h2 root.host-h3 root.monitor",
		"{{ it != 'h2' }}": "root root.host-h1 root.host-h3 root.monitor",
		"{{ 'false' }}":    "root root.monitor",
	}
	for en, tree := range want {
		viper.Set("config_endpoint", "mock://")
		_, repo, _ := repos.NewRepo("/home/user/git/ControlWorkflows", "", "/var/lib/o2/aliecs/repos")
		root := new(aggregatorRole)
		if err := yaml.Unmarshal([]byte(strings.ReplaceAll(c15iWorkflow, "%ENABLED%", en)), root); err != nil {
			t.Fatalf("unmarshal: %v", err)
		}
		err := root.ProcessTemplates(&repo, nil, map[string]string{})
		var names []string
		Walk(root, func(r Role) {
			if _, isIter := r.(*iteratorRole); !isIter {
				names = append(names, r.GetPath())
			}
		})
		if got := strings.Join(names, " "); err != nil || got != tree {
			t.Errorf("enabled: %q on the iterated role: err=%v\n got:  %s\n want: %s", en, err, got, tree)
		}
	}
}
