package workflow

import (
	"errors"
	"runtime"
	"sync"
	"testing"

	"github.com/AliceO2Group/Control/core/repos"
	"github.com/spf13/viper"
)

// a child role whose template processing fails (bad == true) or succeeds
type c15Role struct {
	Role
	bad     bool
	barrier *c15Barrier
}

// all children finish their template processing at the same moment
type c15Barrier struct {
	mu      sync.Mutex
	waiting int
	total   int
	release chan struct{}
}

func (b *c15Barrier) arrive() {
	b.mu.Lock()
	b.waiting++
	if b.waiting == b.total {
		close(b.release)
	}
	b.mu.Unlock()
	<-b.release
}

func (r *c15Role) ProcessTemplates(repos.IRepo, LoadSubworkflowFunc, map[string]string) error {
	r.barrier.arrive()
	runtime.Gosched()
	if r.bad {
		return errors.New("template error in this role")
	}
	return nil
}
func (r *c15Role) IsEnabled() bool      { return true }
func (r *c15Role) setParent(Updatable)  {}
func (r *c15Role) GetParent() Updatable { return nil }

// a role template generating one failing child (for the value "0") among succeeding ones
type c15Template struct {
	roleTemplate
	barrier *c15Barrier
}

func (t *c15Template) GetParent() Updatable { return nil }
func (t *c15Template) generateRole(locals map[string]string) (Role, error) {
	return &c15Role{bad: locals["i"] == "0", barrier: t.barrier}, nil
}

func TestC15ConcurrentIteratorKeepsChildError(t *testing.T) {
	viper.Set("config_endpoint", "mock://")
	viper.Set("concurrentWorkflowTemplateIteratorProcessing", true)
	viper.Set("concurrentIteratorRoleExpansion", false)
	defer viper.Set("concurrentWorkflowTemplateIteratorProcessing", false)
	lost := 0
	const runs = 3000
	for n := 0; n < runs; n++ {
		it := &iteratorRole{
			For:      &iteratorRangeFor{Begin: "0", End: "63", Var: "i"},
			template: &c15Template{barrier: &c15Barrier{total: 64, release: make(chan struct{})}},
		}
		if err := it.ProcessTemplates(nil, nil, map[string]string{}); err == nil {
			lost++
		}
	}
	if lost > 0 {
		t.Fatalf("a template error in one of 64 concurrently processed children was lost in %d of %d loads: the load succeeded with a partial tree", lost, runs)
	}
}
