package workflow

// Replay for the C15 finding "a template error in an `enabled` expression is swallowed: the role is silently pruned".
//
// C15: "... a template error in any role makes the load fail instead of producing a partial tree."
// The `enabled` expression is the only field processed at STAGE0. template.Sequence.Execute hands the error of a stage to the
// role's stage callback and continues with what the callback returns. The callback (MakeDisabledRoleCallback) looked, at
// STAGE0, only at whether the role is enabled: with an expression that failed to compile or evaluate the field still
// holds the raw "{{ ... }}" text, which is not "true", so the callback returned RoleDisabledError and DROPPED the error.
// The load then succeeded with the role (and its subtree) missing.

import (
	"strings"
	"testing"

	"github.com/AliceO2Group/Control/core/repos"
	"github.com/spf13/viper"
	"gopkg.in/yaml.v3"
)

const c15fWorkflow = `
name: root
defaults:
  readout_enabled: "true"
roles:
  - name: "readout"
    enabled: "%ENABLED%"
    task:
      load: readout
  - name: "monitor"
    task:
      load: monitor
`

func c15fLoad(t *testing.T, enabled string) (*aggregatorRole, error) {
	viper.Set("config_endpoint", "mock://")
	viper.Set("concurrentWorkflowTemplateProcessing", false)
	viper.Set("concurrentWorkflowTemplateIteratorProcessing", false)
	viper.Set("concurrentIteratorRoleExpansion", false)
	_, repo, _ := repos.NewRepo("/home/user/git/ControlWorkflows", "", "/var/lib/o2/aliecs/repos")
	root := new(aggregatorRole)
	if err := yaml.Unmarshal([]byte(strings.ReplaceAll(c15fWorkflow, "%ENABLED%", enabled)), root); err != nil {
		t.Fatalf("unmarshal: %v", err)
	}
	err := root.ProcessTemplates(&repo, nil, map[string]string{})
	return root, err
}

func c15fPaths(root *aggregatorRole) string {
	var names []string
	Walk(root, func(r Role) { names = append(names, r.GetPath()) })
	return strings.Join(names, " ")
}

func TestC15EnabledTemplateError(t *testing.T) {
	// sanity: a valid expression that is true keeps the role, one that is false prunes it, both without error
	root, err := c15fLoad(t, "{{ readout_enabled }}")
	if err != nil || c15fPaths(root) != "root root.readout root.monitor" {
		t.Fatalf("valid true expression: err=%v tree=%s", err, c15fPaths(root))
	}
	root, err = c15fLoad(t, "{{ readout_enabled == 'false' }}")
	if err != nil || c15fPaths(root) != "root root.monitor" {
		t.Fatalf("valid false expression: err=%v tree=%s", err, c15fPaths(root))
	}
	// an expression that cannot be compiled (unbalanced parenthesis) is a template error: the load must fail
	root, err = c15fLoad(t, "{{ strings.ToLower(readout_enabled }}")
	if err == nil {
		t.Errorf("template error in the enabled expression of root.readout did not fail the load; tree returned: %s", c15fPaths(root))
	}
}
