package environment

// C06: after a destroy none of the tasks launched for the environment is still owned by it - DESTROY hook tasks included,
// whatever their weight and whether or not their role is still ACTIVE. Harness adapted from seeded/C06-2: the real
// Manager.TeardownEnvironment, a stand-in for the task manager loop that records what it is asked to release.

import (
	"sync"
	"testing"
	"time"

	"github.com/AliceO2Group/Control/common/event"
	"github.com/AliceO2Group/Control/common/utils/uid"
	"github.com/AliceO2Group/Control/core/integration"
	"github.com/AliceO2Group/Control/core/integration/testplugin"
	"github.com/AliceO2Group/Control/core/task"
	"github.com/AliceO2Group/Control/core/task/taskop"
	"github.com/AliceO2Group/Control/core/workflow"
	"github.com/AliceO2Group/Control/core/workflow/callable"
	"github.com/spf13/viper"
)

// c06hRootRole wraps a real workflow root role and adds a fixed set of tasks to it
// (there is no exported way to build task roles with tasks outside the workflow package).
type c06hRootRole struct {
	workflow.Role
	tasks     task.Tasks
	hookTasks map[callable.HookWeight]*task.Task
}

func (r *c06hRootRole) GetHooksMapForTrigger(trigger string) callable.HooksMap {
	m := r.Role.GetHooksMapForTrigger(trigger)
	if trigger == "DESTROY" {
		for w, tk := range r.hookTasks {
			m[w] = append(m[w], tk)
		}
	}
	return m
}

func (r *c06hRootRole) GetTasks() task.Tasks {
	out := make(task.Tasks, len(r.tasks))
	copy(out, r.tasks)
	return out
}

func TestC06DestroyHookTasksAreAllReleased(t *testing.T) {
	integration.Reset()
	integration.RegisterPlugin("testplugin", "testPluginEndpoint", testplugin.NewPlugin)
	viper.Reset()
	viper.Set("integrationPlugins", []string{"testplugin"})
	viper.Set("testPluginEndpoint", "http://example.com")
	viper.Set("config_endpoint", "mock://")

	incoming := make(chan event.Event, 16)
	tm := &task.Manager{MessageChannel: make(chan *task.TaskmanMessage, 16)}
	envs := NewEnvManager(tm, incoming)

	envId := uid.New()
	env, err := newEnvironment(map[string]string{}, envId)
	if err != nil || env == nil {
		t.Fatalf("cannot create environment: %v", err)
	}

	inner := workflow.NewAggregatorRole("root", []workflow.Role{})
	workflow.LinkChildrenToParents(inner)
	ordinary := &task.Task{}
	hookEarly, hookLate := &task.Task{}, &task.Task{}
	env.workflow = &c06hRootRole{Role: inner,
		tasks:     task.Tasks{ordinary, hookEarly, hookLate},
		hookTasks: map[callable.HookWeight]*task.Task{0: hookEarly, 10: hookLate}}
	env.Sm.SetState("DEPLOYED")

	envs.mu.Lock()
	envs.m[envId] = env
	envs.pendingStateChangeCh[envId] = env.stateChangedCh
	envs.mu.Unlock()

	var mu sync.Mutex
	released := map[*task.Task]int{}
	stop := make(chan struct{})
	defer close(stop)
	go func() {
		for {
			select {
			case <-stop:
				return
			case msg := <-tm.MessageChannel:
				if msg.GetMessageType() != taskop.ReleaseTasks {
					continue
				}
				ids := make([]string, 0)
				mu.Lock()
				for _, tk := range msg.GetTasks() {
					released[tk]++
					ids = append(ids, tk.GetTaskId())
				}
				mu.Unlock()
				incoming <- event.NewTasksReleasedEvent(msg.GetEnvironmentId(), ids, map[string]error{})
			}
		}
	}()

	done := make(chan error, 1)
	go func() { done <- envs.TeardownEnvironment(envId, false) }()
	select {
	case err = <-done:
	case <-time.After(20 * time.Second):
		t.Fatal("TeardownEnvironment did not return")
	}
	if err != nil {
		t.Fatalf("TeardownEnvironment failed: %v", err)
	}
	mu.Lock()
	defer mu.Unlock()
	if released[ordinary] == 0 {
		t.Errorf("the ordinary task was never released")
	}
	if released[hookEarly] == 0 {
		t.Errorf("the DESTROY hook task of weight 0 was never released: it is still owned by the destroyed environment")
	}
	if released[hookLate] == 0 {
		t.Errorf("the DESTROY hook task of weight 10 was never released: it is still owned by the destroyed environment")
	}
}
