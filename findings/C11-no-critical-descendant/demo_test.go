package workflow

import (
	"testing"

	"github.com/AliceO2Group/Control/core/task/sm"
	"gopkg.in/yaml.v3"
)

// root{ critical task, aggregator{ non-critical task } }: the aggregator has no critical descendant, so it has no opinion
// on the state; once the critical task is RUNNING the root must report RUNNING.
func TestC11AggregatorWithoutCriticalDescendantsHasNoOpinion(t *testing.T) {
	src := `
name: root
roles:
  - name: crit
    task:
      load: someclass
      critical: true
  - name: agg
    roles:
      - name: noncrit
        task:
          load: otherclass
          critical: false
`
	root := new(aggregatorRole)
	if err := yaml.Unmarshal([]byte(src), root); err != nil {
		t.Fatalf("cannot unmarshal workflow: %v", err)
	}
	LinkChildrenToParents(root)

	var crit, noncrit *taskRole
	for _, r := range root.GetRoles() {
		switch x := r.(type) {
		case *taskRole:
			crit = x
		case *aggregatorRole:
			for _, c := range x.GetRoles() {
				noncrit = c.(*taskRole)
			}
		}
	}
	if crit == nil || noncrit == nil || !crit.Critical || noncrit.Critical {
		t.Fatalf("test setup problem: crit=%v noncrit=%v", crit, noncrit)
	}

	for _, st := range []sm.State{sm.CONFIGURED, sm.RUNNING} {
		noncrit.UpdateState(st)
		crit.UpdateState(st)
		if got := root.GetState(); got != st {
			t.Fatalf("all tasks are %s, the only critical one included, but the root reports %s (the aggregator without critical descendants reports %s)",
				st, got, root.GetRoles()[1].GetState())
		}
	}
}
