package task

// Replay for the C12 / C02 finding "a control command refused by the queue makes the transition wait for ever".
//
// transitionTasks and configureTasks ignored the error of CommandQueue.Enqueue (queue full, or queue not started) and then
// waited on the notify channel for an answer nobody will ever send - while the environment's transition lock is held.
// C12: every control command completes exactly once; C02: a transition fails if a critical task cannot be commanded.

import (
	"errors"
	"testing"
	"time"

	"github.com/AliceO2Group/Control/common"
	"github.com/AliceO2Group/Control/common/event"
	"github.com/AliceO2Group/Control/common/gera"
	"github.com/AliceO2Group/Control/common/utils/uid"
	"github.com/AliceO2Group/Control/core/controlcommands"
	"github.com/AliceO2Group/Control/core/task/channel"
	"github.com/AliceO2Group/Control/core/task/sm"
	"github.com/AliceO2Group/Control/core/task/taskclass"
	mesos "github.com/mesos/mesos-go/api/v1/lib"
)

type c12fRole struct {
	name     string
	critical bool
	envId    uid.ID
}

func (r *c12fRole) UpdateStatus(Status)                         {}
func (r *c12fRole) UpdateState(sm.State)                        {}
func (r *c12fRole) GetPath() string                             { return "root." + r.name }
func (r *c12fRole) GetTaskClass() string                        { return "class" }
func (r *c12fRole) GetTaskTraits() Traits                       { return Traits{Critical: r.critical, Timeout: "10s"} }
func (r *c12fRole) SetTask(*Task)                               {}
func (r *c12fRole) GetEnvironmentId() uid.ID                    { return r.envId }
func (r *c12fRole) CollectOutboundChannels() []channel.Outbound { return nil }
func (r *c12fRole) CollectInboundChannels() []channel.Inbound   { return nil }
func (r *c12fRole) GetDefaults() gera.Map[string, string]       { return gera.MakeMap[string, string]() }
func (r *c12fRole) GetVars() gera.Map[string, string]           { return gera.MakeMap[string, string]() }
func (r *c12fRole) GetUserVars() gera.Map[string, string]       { return gera.MakeMap[string, string]() }
func (r *c12fRole) ConsolidatedVarStack() (map[string]string, error) {
	return map[string]string{}, nil
}
func (r *c12fRole) SendEvent(event.Event) {}
func (r *c12fRole) GetName() string       { return r.name }

func c12fTask(envId uid.ID, name string, critical bool) *Task {
	cmdValue := "/bin/" + name
	t := &Task{
		parent:      &c12fRole{name: name, critical: critical, envId: envId},
		className:   "class",
		name:        name,
		hostname:    "host-" + name,
		agentId:     "agent-" + name,
		offerId:     "offer-" + name,
		taskId:      "task-" + name,
		executorId:  "executor-" + name,
		state:       sm.CONFIGURED,
		status:      ACTIVE,
		commandInfo: &common.TaskCommandInfo{},
	}
	t.commandInfo.Value = &cmdValue
	class := &taskclass.Class{}
	t.GetTaskClass = func() *taskclass.Class { return class }
	return t
}

// outcome of the command for one task:
//
//	"ok"             the executor acknowledges
//	"error"          the executor answers with an error
//	"undeliverable"  the command cannot be sent
//	"executorFailed" the executor fails while the command is in flight: Mesos reports the failure
//	                 (HandleExecutorFailed) and the command cannot be delivered
func c12fManager(outcomes map[string]string) *Manager {
	m := &Manager{roster: newRoster()}
	var servent *controlcommands.Servent
	servent = controlcommands.NewServent(func(cmd controlcommands.MesosCommand, receiver controlcommands.MesosCommandTarget) error {
		tcmd := cmd.(*controlcommands.MesosCommand_Transition)
		switch outcomes[receiver.TaskId.Value] {
		case "executorFailed":
			m.HandleExecutorFailed(event.NewExecutorFailedEvent(&mesos.ExecutorID{Value: receiver.ExecutorId.Value}))
			return errors.New("executor " + receiver.ExecutorId.Value + " is gone")
		case "undeliverable":
			return errors.New("cannot reach executor " + receiver.ExecutorId.Value)
		case "error":
			res := controlcommands.NewMesosCommandResponse_Transition(tcmd, errors.New("transition failed"), tcmd.Source, receiver.TaskId.Value)
			go servent.ProcessResponse(res, receiver)
		default:
			res := controlcommands.NewMesosCommandResponse_Transition(tcmd, nil, tcmd.Destination, receiver.TaskId.Value)
			go servent.ProcessResponse(res, receiver)
		}
		return nil
	})
	m.cq = controlcommands.NewCommandQueue(servent)
	m.cq.Start()
	return m
}

func c12fTransition(t *testing.T, m *Manager, envId uid.ID, tasks Tasks) error {
	t.Helper()
	done := make(chan error, 1)
	go func() {
		done <- m.transitionTasks(envId, tasks, sm.CONFIGURED.String(), sm.START.String(), sm.RUNNING.String(), nil)
	}()
	select {
	case err := <-done:
		return err
	case <-time.After(20 * time.Second):
		t.Fatal("transitionTasks did not return")
		return nil
	}
}


func TestC12EnqueueErrorIgnored(t *testing.T) {
	envId := uid.New()
	tasks := Tasks{c12fTask(envId, "a", true), c12fTask(envId, "b", true)}
	m := c12fManager(map[string]string{})
	m.cq.Stop()
	// a queue that refuses the command: it was never started (the same error path as a full queue)
	m.cq = controlcommands.NewCommandQueue(controlcommands.NewServent(func(controlcommands.MesosCommand, controlcommands.MesosCommandTarget) error { return nil }))
	m.roster.updateTasks(tasks)
	done := make(chan error, 1)
	go func() {
		done <- m.transitionTasks(envId, tasks, sm.CONFIGURED.String(), sm.START.String(), sm.RUNNING.String(), nil)
	}()
	select {
	case err := <-done:
		if err == nil {
			t.Errorf("the command was refused by the queue, yet the transition was reported as successful")
		}
	case <-time.After(3 * time.Second):
		t.Fatal("the command was refused by the queue and transitionTasks waits for its answer for ever")
	}
}
