package executor

import (
	"context"
	"io"
	"testing"
	"time"

	"github.com/AliceO2Group/Control/executor/executable"
	mesos "github.com/mesos/mesos-go/api/v1/lib"
	"github.com/mesos/mesos-go/api/v1/lib/encoding"
	"github.com/mesos/mesos-go/api/v1/lib/executor"
)

type auditDecoder struct{ evs chan executor.Event }

func (d *auditDecoder) Decode(u encoding.Unmarshaler) error {
	e, ok := <-d.evs
	if !ok {
		return io.EOF
	}
	*(u.(*executor.Event)) = e
	return nil
}

// A KILL for a task the executor does not (or no longer) know - duplicate KILL, KILL after the terminal status, KILL for
// a task whose launch failed - makes the handler return an error, which terminates the event loop (=> the executor
// unsubscribes and, without checkpointing, exits while other tasks are running).
func TestAuditKillForUnknownTaskEndsEventLoop(t *testing.T) {
	state := &internalState{
		unackedTasks:   map[mesos.TaskID]mesos.TaskInfo{},
		unackedUpdates: map[string]executor.Call_Update{},
		failedTasks:    map[mesos.TaskID]mesos.TaskStatus{},
		killedTasks:    map[mesos.TaskID]mesos.TaskStatus{},
		activeTasks:    map[mesos.TaskID]executable.Task{},
		statusCh:       make(chan mesos.TaskStatus, 16),
		messageCh:      make(chan []byte),
	}
	dec := &auditDecoder{evs: make(chan executor.Event, 4)}
	dec.evs <- executor.Event{Type: executor.Event_KILL, Kill: &executor.Event_Kill{TaskID: mesos.TaskID{Value: "already-gone"}}}
	done := make(chan error, 1)
	go func() { done <- eventLoop(state, dec, buildEventHandler(state)) }()
	select {
	case err := <-done:
		t.Fatalf("event loop terminated by a KILL for an unknown task: %v", err)
	case <-time.After(2 * time.Second):
		// still serving events: fine
	}
	_ = context.TODO
}
