package task

import (
	"testing"

	"github.com/AliceO2Group/Control/common/utils/uid"
	"github.com/AliceO2Group/Control/core/task/channel"
	"github.com/mesos/mesos-go/api/v1/lib"
	"github.com/mesos/mesos-go/api/v1/lib/resources"
)

// An offer whose ports all lie below 9000 passes Resources.Satisfy (which only counts ports) for a task with one inbound
// TCP channel; the dynamic port is then taken as the minimum of the offered ports >= 9000, of which there are none.
func TestC05DynamicPortWhenNoOfferedPortIsHighEnough(t *testing.T) {
	offered := mesos.Resources{
		resources.NewCPUs(4).Resource,
		resources.NewMemory(4096).Resource,
		resources.Build().Name(resources.Name("ports")).Ranges(resources.BuildRanges().Span(8000, 8010).Ranges).Resource,
	}
	wants := &Wants{Cpu: 1, Memory: 128, InboundChannels: []channel.Inbound{{
		Channel:    channel.Channel{Name: "data"},
		Addressing: channel.TCP,
	}}}
	if !Resources(offered).Satisfy(wants) {
		t.Skip("the offer is refused by Resources.Satisfy, nothing to show")
	}
	offer := &mesos.Offer{Hostname: "host1", Resources: offered}
	var panicked interface{}
	func() {
		defer func() { panicked = recover() }()
		tk, ti := makeTaskForMesosResources(nil, offer, &Descriptor{}, wants, nil, offered,
			map[string]struct{}{}, mesos.ExecutorID{}, uid.New(), "", map[mesos.OfferID]struct{}{})
		if tk != nil || ti != nil {
			t.Errorf("a task was built although no port of the offer can serve the inbound channel")
		}
	}()
	if panicked != nil {
		t.Fatalf("building a task on an offer accepted by Resources.Satisfy panicked in the scheduler: %v", panicked)
	}
}
