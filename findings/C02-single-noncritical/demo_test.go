package task

// C02: "failures confined to non-critical tasks never make a transition fail" - also when the command has a single
// target. Harness adapted from seeded/C02-1 (real transitionTasks, CommandQueue, Servent; fake transport).

import (
	"errors"
	"testing"
	"time"

	"github.com/AliceO2Group/Control/common"
	"github.com/AliceO2Group/Control/common/event"
	"github.com/AliceO2Group/Control/common/gera"
	"github.com/AliceO2Group/Control/common/utils/uid"
	"github.com/AliceO2Group/Control/core/controlcommands"
	"github.com/AliceO2Group/Control/core/task/channel"
	"github.com/AliceO2Group/Control/core/task/sm"
	"github.com/AliceO2Group/Control/core/task/taskclass"
)

type c02oRole struct {
	name     string
	critical bool
}

func (r *c02oRole) UpdateStatus(Status)                         {}
func (r *c02oRole) UpdateState(sm.State)                        {}
func (r *c02oRole) GetPath() string                             { return "root." + r.name }
func (r *c02oRole) GetTaskClass() string                        { return "class" }
func (r *c02oRole) GetTaskTraits() Traits                       { return Traits{Timeout: "0s", Critical: r.critical} }
func (r *c02oRole) SetTask(*Task)                               {}
func (r *c02oRole) GetEnvironmentId() uid.ID                    { return uid.NilID() }
func (r *c02oRole) CollectOutboundChannels() []channel.Outbound { return nil }
func (r *c02oRole) CollectInboundChannels() []channel.Inbound   { return nil }
func (r *c02oRole) GetDefaults() gera.Map[string, string]       { return gera.MakeMap[string, string]() }
func (r *c02oRole) GetVars() gera.Map[string, string]           { return gera.MakeMap[string, string]() }
func (r *c02oRole) GetUserVars() gera.Map[string, string]       { return gera.MakeMap[string, string]() }
func (r *c02oRole) ConsolidatedVarStack() (map[string]string, error) {
	return map[string]string{}, nil
}
func (r *c02oRole) SendEvent(event.Event) {}
func (r *c02oRole) GetName() string       { return r.name }

func c02oTask(id string, host string, critical bool) *Task {
	return &Task{
		parent:       &c02oRole{name: "role-" + id, critical: critical},
		className:    "class",
		name:         "class#" + id,
		hostname:     host,
		agentId:      "agent-" + host,
		offerId:      "offer-" + id,
		taskId:       id,
		executorId:   "executor-" + id,
		status:       ACTIVE,
		state:        sm.CONFIGURED,
		GetTaskClass: func() *taskclass.Class { return &taskclass.Class{} },
		commandInfo:  &common.TaskCommandInfo{},
	}
}

// c02oManager builds a Manager whose command queue talks to fake executors. outcomes maps a task id to
// "ok", "error" (the executor answers with an error) or "undeliverable" (the message cannot be sent).
func c02oManager(tasks Tasks, outcomes map[string]string) *Manager {
	m := &Manager{roster: newRoster()}
	for _, t := range tasks {
		m.roster.append(t)
	}
	var servent *controlcommands.Servent
	servent = controlcommands.NewServent(func(cmd controlcommands.MesosCommand, receiver controlcommands.MesosCommandTarget) error {
		tcmd, ok := cmd.(*controlcommands.MesosCommand_Transition)
		if !ok {
			return errors.New("unexpected command type")
		}
		taskId := receiver.TaskId.Value
		switch outcomes[taskId] {
		case "undeliverable":
			return errors.New("agent unreachable")
		case "error":
			go servent.ProcessResponse(
				controlcommands.NewMesosCommandResponse_Transition(tcmd, errors.New("transition failed"), tcmd.Source, taskId),
				receiver)
		default:
			go servent.ProcessResponse(
				controlcommands.NewMesosCommandResponse_Transition(tcmd, nil, tcmd.Destination, taskId),
				receiver)
		}
		return nil
	})
	m.cq = controlcommands.NewCommandQueue(servent)
	m.cq.Start()
	return m
}


func TestC02SingleNonCriticalTaskFailureDoesNotFailTransition(t *testing.T) {
	// control: two tasks, the non-critical one fails, the critical one acknowledges => success (multi-response path)
	two := Tasks{c02oTask("t-a", "host1", true), c02oTask("t-b", "host2", false)}
	m2 := c02oManager(two, map[string]string{"t-a": "ok", "t-b": "error"})
	if err := m2.transitionTasks(uid.New(), two, sm.CONFIGURED.String(), sm.START.String(), sm.RUNNING.String(), nil); err != nil {
		m2.cq.Stop()
		t.Fatalf("control case: a failing non-critical task among two made START fail: %v", err)
	}
	m2.cq.Stop()

	// the same failing non-critical task as the only target
	one := Tasks{c02oTask("t-b", "host2", false)}
	m1 := c02oManager(one, map[string]string{"t-b": "error"})
	defer m1.cq.Stop()
	done := make(chan error, 1)
	go func() {
		done <- m1.transitionTasks(uid.New(), one, sm.CONFIGURED.String(), sm.START.String(), sm.RUNNING.String(), nil)
	}()
	select {
	case err := <-done:
		if err != nil {
			t.Fatalf("START failed because of a NON-critical task (the only target of the command): %v", err)
		}
	case <-time.After(20 * time.Second):
		t.Fatalf("transitionTasks did not return")
	}
}
