package executable

import (
	"testing"
	"time"

	"github.com/AliceO2Group/Control/common"
	"github.com/AliceO2Group/Control/common/controlmode"
	"github.com/mesos/mesos-go/api/v1/lib"
)

// A KILL that reaches a controllable task before its control channel exists (Launch returned, the asynchronous part is
// still starting the child / dialling gRPC: "never becomes ready"), or after the reaper closed it (child already gone,
// final status not yet delivered), finds t.rpc == nil.
func TestC17KillBeforeControlChannelExistsDoesNotPanic(t *testing.T) {
	ct := &ControllableTask{}
	ct.Tci = &common.TaskCommandInfo{ControlMode: controlmode.FAIRMQ}
	ct.ti = &mesos.TaskInfo{}
	ct.pendingFinalTaskStateCh = make(chan mesos.TaskState, 1)
	ct.rpc = nil

	done := make(chan interface{}, 1)
	go func() {
		defer func() { done <- recover() }()
		_ = ct.Kill()
	}()
	select {
	case r := <-done:
		if r != nil {
			t.Fatalf("Kill of a controllable task without control channel panicked: %v", r)
		}
	case <-time.After(20 * time.Second):
		t.Fatalf("Kill hangs")
	}
}
