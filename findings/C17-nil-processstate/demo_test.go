package executable

import (
	"os/exec"
	"syscall"
	"testing"
	"time"

	"github.com/AliceO2Group/Control/common"
	"github.com/AliceO2Group/Control/common/controlmode"
	"github.com/mesos/mesos-go/api/v1/lib"
)

func TestC17StopOfRunningBasicTaskDoesNotPanic(t *testing.T) {
	cmd := exec.Command("sleep", "30")
	cmd.SysProcAttr = &syscall.SysProcAttr{Setpgid: true}
	if err := cmd.Start(); err != nil {
		t.Skip("cannot start child: ", err)
	}
	defer func() { _ = syscall.Kill(-cmd.Process.Pid, syscall.SIGKILL); _, _ = cmd.Process.Wait() }()

	bt := &basicTaskBase{}
	bt.taskCmd = cmd
	bt.Tci = &common.TaskCommandInfo{ControlMode: controlmode.BASIC}
	bt.ti = &mesos.TaskInfo{}
	bt.pendingFinalTaskStateCh = make(chan mesos.TaskState, 1)

	done := make(chan interface{}, 1)
	go func() {
		defer func() { done <- recover() }()
		_ = bt.ensureBasicTaskKilled()
	}()
	select {
	case r := <-done:
		if r != nil {
			t.Fatalf("STOP of a basic task whose child is still running panicked: %v", r)
		}
	case <-time.After(5 * time.Second):
		t.Fatalf("ensureBasicTaskKilled hangs")
	}
	select {
	case st := <-bt.pendingFinalTaskStateCh:
		if st != mesos.TASK_KILLED {
			t.Fatalf("pending final state %v, want TASK_KILLED", st)
		}
	default:
		t.Fatalf("no pending final state recorded for the killed task")
	}
}
