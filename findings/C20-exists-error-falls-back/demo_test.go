package local

import (
	"errors"
	"os"
	"path/filepath"
	"strings"
	"testing"

	apricotpb "github.com/AliceO2Group/Control/apricot/protos"
	"github.com/AliceO2Group/Control/configuration/cfgbackend"
	"github.com/AliceO2Group/Control/configuration/componentcfg"
)

func auditNewYamlService(t *testing.T, yamlText string) *Service {
	t.Helper()
	dir := t.TempDir()
	f := filepath.Join(dir, "cfg.yaml")
	if err := os.WriteFile(f, []byte(yamlText), 0644); err != nil {
		t.Fatal(err)
	}
	svc, err := NewService("file://" + f)
	if err != nil {
		t.Fatal(err)
	}
	return svc
}

// A: ResolveComponentQuery(nil) dereferences nil (inverted nil check, service.go:437-439)
func TestAuditC20_ResolveNilQuery(t *testing.T) {
	svc := auditNewYamlService(t, "o2:\n  components:\n    qc:\n      ANY:\n        any:\n          e: \"x\"\n")
	defer func() {
		if r := recover(); r != nil {
			t.Fatalf("ResolveComponentQuery(nil) panicked: %v", r)
		}
	}()
	_, err := svc.ResolveComponentQuery(nil)
	if err == nil {
		t.Fatalf("nil query resolved without error")
	}
}

// B: a supplied variable named like a utility namespace is replaced by the function map
func TestAuditC20_SuppliedVariableShadowed(t *testing.T) {
	svc := auditNewYamlService(t, "o2:\n  components:\n    qc:\n      ANY:\n        any:\n          e: \"v={{ util }}\"\n")
	q := &componentcfg.Query{Component: "qc", RunType: apricotpb.RunType_ANY, RoleName: "any", EntryKey: "e"}
	payload, err := svc.GetAndProcessComponentConfiguration(q, map[string]string{"util": "hello"})
	if err != nil {
		t.Fatal(err)
	}
	if payload != "v=hello" {
		t.Fatalf("payload = %q, want %q", payload, "v=hello")
	}
}

// C: the processed payload is the stale content after the entry was re-imported through the same service
func TestAuditC20_StaleTemplateAfterImport(t *testing.T) {
	svc := auditNewYamlService(t, "o2:\n  components:\n    qc:\n      ANY:\n        any:\n          e: \"old {{ x }}\"\n")
	q := &componentcfg.Query{Component: "qc", RunType: apricotpb.RunType_ANY, RoleName: "any", EntryKey: "e"}
	p1, err := svc.GetAndProcessComponentConfiguration(q, map[string]string{"x": "1"})
	if err != nil || p1 != "old 1" {
		t.Fatalf("first: %q %v", p1, err)
	}
	if _, _, err = svc.ImportComponentConfiguration(q, "new {{ x }}", false); err != nil {
		t.Fatal(err)
	}
	raw, err := svc.GetComponentConfiguration(q)
	if err != nil || raw != "new {{ x }}" {
		t.Fatalf("raw after import: %q %v", raw, err)
	}
	p2, err := svc.GetAndProcessComponentConfiguration(q, map[string]string{"x": "2"})
	if err != nil {
		t.Fatal(err)
	}
	if p2 != "new 2" {
		t.Fatalf("processed payload after import = %q, want %q (entry content is %q)", p2, "new 2", raw)
	}
}

// D: a backend failure of Exists is taken for "does not exist": a less specific entry wins although the exact one exists
type auditFlakySource struct {
	cfgbackend.Source
	failOnce map[string]bool
}

func (f *auditFlakySource) Exists(key string) (bool, error) {
	if f.failOnce[key] {
		delete(f.failOnce, key)
		return false, errors.New("Unexpected response code: 429 (rate limited)")
	}
	return f.Source.Exists(key)
}

func TestAuditC20_ExistsErrorFallsBack(t *testing.T) {
	svc := auditNewYamlService(t, "o2:\n  components:\n    qc:\n      PHYSICS:\n        flp1:\n          e: \"specific\"\n      ANY:\n        any:\n          e: \"generic\"\n")
	q := &componentcfg.Query{Component: "qc", RunType: apricotpb.RunType_PHYSICS, RoleName: "flp1", EntryKey: "e"}
	svc.src = &auditFlakySource{Source: svc.src, failOnce: map[string]bool{q.AbsoluteRaw(): true}}
	resolved, err := svc.ResolveComponentQuery(q)
	if err != nil {
		return // failing is acceptable
	}
	if resolved.Path() != "qc/PHYSICS/flp1/e" {
		t.Fatalf("exact entry exists, but resolved to %s (backend error on Exists swallowed)", resolved.Path())
	}
}

// E: a directory counts as an existing entry with the YAML backend
func TestAuditC20_DirectoryResolvedAsEntry(t *testing.T) {
	svc := auditNewYamlService(t, "o2:\n  components:\n    qc:\n      PHYSICS:\n        flp1:\n          e:\n            sub: \"nested\"\n      ANY:\n        any:\n          e: \"generic\"\n")
	q := &componentcfg.Query{Component: "qc", RunType: apricotpb.RunType_PHYSICS, RoleName: "flp1", EntryKey: "e"}
	resolved, err := svc.ResolveComponentQuery(q)
	if err != nil {
		t.Fatal(err)
	}
	if _, err = svc.GetComponentConfiguration(resolved); err != nil {
		t.Fatalf("resolved to %s which is not an entry: %v", resolved.Path(), err)
	}
}

// F: variable names are trimmed: two distinct supplied keys collapse
func TestAuditC20_VarKeyTrimmed(t *testing.T) {
	svc := auditNewYamlService(t, "o2:\n  components:\n    qc:\n      ANY:\n        any:\n          e: \"v={{ x }}\"\n")
	q := &componentcfg.Query{Component: "qc", RunType: apricotpb.RunType_ANY, RoleName: "any", EntryKey: "e"}
	payload, err := svc.GetAndProcessComponentConfiguration(q, map[string]string{" x ": "blank-padded"})
	if err != nil {
		t.Fatal(err)
	}
	if strings.Contains(payload, "blank-padded") {
		t.Fatalf("variable %q was not supplied, yet payload = %q", "x", payload)
	}
}

// G: the accepted query "qc/ANY/any//" (entry key "/") resolves to the role directory with the YAML backend
func TestAuditC20_SlashEntryResolvesToDirectory(t *testing.T) {
	svc := auditNewYamlService(t, "o2:\n  components:\n    qc:\n      ANY:\n        any:\n          e: \"generic\"\n")
	q, err := componentcfg.NewQuery("qc/ANY/any//")
	if err != nil {
		return // rejecting is fine
	}
	resolved, err := svc.ResolveComponentQuery(q)
	if err == nil {
		t.Fatalf("no entry %q exists, yet resolved to %q", q.EntryKey, resolved.Path())
	}
}
