package environment

// C02 audit: "failures confined to non-critical tasks never make a transition fail" does not hold for DEPLOY.
// Manager.acquireTasks treats a NON-critical descriptor that could not be deployed as a success (deploymentSuccess
// stays true, manager.go:570-586) and leaves its role INACTIVE; DeployTransition.do however waits for the status of
// the WHOLE workflow to become ACTIVE, and the status aggregation (workflow/safestatus.go aggregateStatus,
// taskRole.updateStatus -> parent.updateStatus) counts every role whatever its criticality: ACTIVE x INACTIVE = PARTIAL.
// So DEPLOY runs into deploy_timeout and fails although every critical task became active in time.

import (
	"reflect"
	"testing"
	"time"
	"unsafe"

	"github.com/AliceO2Group/Control/common/utils/uid"
	"github.com/AliceO2Group/Control/core/task"
	"github.com/AliceO2Group/Control/core/task/taskop"
	"github.com/AliceO2Group/Control/core/workflow"
	"github.com/spf13/viper"
	"gopkg.in/yaml.v3"
)

const auditC02DeployWf = `
name: root
vars:
  deploy_timeout: 3s
roles:
  - name: readout
    task:
      load: readout
      critical: true
  - name: qc
    task:
      load: qc
      critical: false
`

func auditC02Deploy(t *testing.T, nonCriticalComesUp bool, spacing time.Duration) (error, string, task.Status) {
	viper.Set("config_endpoint", "mock://")
	env, err := newEnvironment(map[string]string{}, uid.New())
	if err != nil {
		t.Fatal(err)
	}
	root := workflow.NewAggregatorRole("root", nil)
	if err = yaml.Unmarshal([]byte(auditC02DeployWf), root); err != nil {
		t.Fatal(err)
	}
	workflow.LinkChildrenToParents(root)
	// root.parent = env.wfAdapter (what workflow.Load does), so that status changes reach the DEPLOY transition
	pf := reflect.ValueOf(root).Elem().FieldByName("roleBase").FieldByName("parent")
	reflect.NewAt(pf.Type(), unsafe.Pointer(pf.UnsafeAddr())).Elem().Set(reflect.ValueOf(env.wfAdapter))
	env.workflow = root

	tm := &task.Manager{MessageChannel: make(chan *task.TaskmanMessage)}
	go func() { // fake task manager + executors
		for msg := range tm.MessageChannel {
			if msg.GetMessageType() != taskop.AcquireTasks {
				continue
			}
			time.Sleep(100 * time.Millisecond) // the transition is waiting for status changes by now
			for _, d := range msg.GetDescriptors() {
				time.Sleep(spacing)
				if d.TaskRole.GetTaskTraits().Critical || nonCriticalComesUp {
					d.TaskRole.UpdateStatus(task.ACTIVE) // TASK_RUNNING => Manager.updateTaskStatus => parent.UpdateStatus(ACTIVE)
				}
				// the non-critical task finds no matching offer: acquireTasks logs "non-critical task deployment
				// failure" and goes on as a success, nobody touches its role
			}
		}
	}()

	done := make(chan error, 1)
	go func() { done <- env.TryTransition(NewDeployTransition(tm, nil, nil)) }()
	select {
	case err = <-done:
	case <-time.After(30 * time.Second):
		t.Fatal("DEPLOY did not return")
	}
	return err, env.CurrentState(), root.GetStatus()
}

func TestAuditC02_DeployFailsBecauseOfNonCriticalTask(t *testing.T) {
	err, st, ws := auditC02Deploy(t, true, 50*time.Millisecond)
	if err != nil || st != "DEPLOYED" {
		t.Fatalf("control case (every task comes up): err=%v state=%s", err, st)
	}
	err, st, ws = auditC02Deploy(t, false, 50*time.Millisecond)
	t.Logf("only the non-critical task failed to deploy: err=%v, environment state %s, workflow status %s", err, st, ws)
	if err != nil {
		t.Fatalf("DEPLOY failed although every CRITICAL task became active in time (only the non-critical 'qc' did not): %v", err)
	}
}

// Second, independent defect seen with the same harness: every task becomes active in time, yet DEPLOY fails.
// ParentAdapter.updateStatus (workflow/parentadapter.go:112-121) notifies with a non-blocking send on an unbuffered
// channel; DeployTransition.do is not receiving while it handles the previous notification (or between
// wf.GetStatus() and the select, transition_deploy.go:220-227), so the final ACTIVE notification is dropped when two
// tasks report TASK_RUNNING back to back. The loop then sits until deploy_timeout, and the timeout branch
// (transition_deploy.go:263-310) fails the transition unconditionally - it re-reads the status but never checks it:
// "workflow deployment timed out ... [0 undeployable roles: ; 0 inactive roles: ]".
func TestAuditC02_DeployLosesFinalActiveNotification(t *testing.T) {
	failures := 0
	const runs = 10
	var last error
	for i := 0; i < runs; i++ {
		err, st, ws := auditC02Deploy(t, true, 0)
		if err != nil {
			failures++
			last = err
			t.Logf("run %d: all tasks ACTIVE (workflow status %s) but DEPLOY failed, environment state %s: %v", i, ws, st, err)
		}
	}
	if failures > 0 {
		t.Fatalf("%d of %d deployments in which every task became active at once failed: %v", failures, runs, last)
	}
}
