package environment

// C02 audit: a critical task that died before the command is sent (its role is no longer ACTIVE) is silently left
// out of the transition: the others acknowledge, the environment reports the destination state and the request
// returns no error although a critical task of the workflow never got there.
//
// Real code exercised: newEnvironment (FSM + callbacks), TryTransition, StartActivityTransition.do / ResetTransition.do,
// workflow.GetActiveTasks, role status propagation. The task manager is a fake that acknowledges every task it is asked
// to command (i.e. behaves like transitionTasks with all commanded executors answering ok).

import (
	"testing"
	"time"

	"github.com/AliceO2Group/Control/common/event"
	"github.com/AliceO2Group/Control/common/gera"
	"github.com/AliceO2Group/Control/core/task/channel"
	"github.com/AliceO2Group/Control/core/task/sm"
	"github.com/AliceO2Group/Control/common/utils/uid"
	"github.com/AliceO2Group/Control/core/task"
	"github.com/AliceO2Group/Control/core/workflow"
	"github.com/spf13/viper"
	"gopkg.in/yaml.v3"
)

const auditC02Wf = `
name: root
roles:
  - name: readout
    task:
      load: readout
      critical: true
  - name: stfb
    task:
      load: stfb
      critical: true
`

type auditParentRole interface {
	UpdateStatus(task.Status)
	UpdateState(sm.State)
	GetPath() string
	GetTaskClass() string
	GetTaskTraits() task.Traits
	SetTask(*task.Task)
	GetEnvironmentId() uid.ID
	CollectOutboundChannels() []channel.Outbound
	GetDefaults() gera.Map[string, string]
	GetVars() gera.Map[string, string]
	GetUserVars() gera.Map[string, string]
	ConsolidatedVarStack() (varStack map[string]string, err error)
	CollectInboundChannels() []channel.Inbound
	SendEvent(event.Event)
	GetName() string
}

type auditTaskSetter interface {
	SetTask(*task.Task)
}

func auditC02Env(t *testing.T) (*Environment, *task.Manager, map[string]*task.Task, chan task.Tasks) {
	viper.Set("config_endpoint", "mock://")
	env, err := newEnvironment(map[string]string{}, uid.New())
	if err != nil {
		t.Fatal(err)
	}
	root := workflow.NewAggregatorRole("root", nil)
	if err = yaml.Unmarshal([]byte(auditC02Wf), root); err != nil {
		t.Fatal(err)
	}
	workflow.LinkChildrenToParents(root)
	env.workflow = root

	tasks := map[string]*task.Task{}
	for _, r := range root.GetRoles() {
		tk := &task.Task{}
		tk.SetParent(r.(auditParentRole))
		r.(auditTaskSetter).SetTask(tk)
		tasks[r.GetName()] = tk
	}

	commanded := make(chan task.Tasks, 4)
	tm := &task.Manager{MessageChannel: make(chan *task.TaskmanMessage)}
	go func() { // fake task manager: every commanded task acknowledges
		for msg := range tm.MessageChannel {
			commanded <- msg.GetTasks()
			env.stateChangedCh <- event.NewTasksStateChangedEvent(env.id, nil, nil)
		}
	}()
	return env, tm, tasks, commanded
}

func TestAuditC02_DeadCriticalTaskIsSkippedAndTransitionSucceeds(t *testing.T) {
	env, tm, tasks, commanded := auditC02Env(t)

	// both critical tasks are up, the environment is CONFIGURED
	for _, r := range env.workflow.GetRoles() {
		r.(workflow.PublicUpdatable).UpdateStatus(task.ACTIVE)
	}
	env.Sm.SetState("CONFIGURED")

	// the critical task "stfb" dies (TASK_FAILED => updateTaskStatus => role INACTIVE) before RESET commands the tasks
	for _, r := range env.workflow.GetRoles() {
		if r.GetName() == "stfb" {
			r.(workflow.PublicUpdatable).UpdateStatus(task.INACTIVE)
		}
	}

	done := make(chan error, 1)
	go func() { done <- env.TryTransition(NewResetTransition(tm)) }()
	var err error
	select {
	case err = <-done:
	case <-time.After(20 * time.Second):
		t.Fatal("RESET did not return")
	}
	cmd := <-commanded
	stfbCommanded := false
	for _, c := range cmd {
		if c == tasks["stfb"] {
			stfbCommanded = true
		}
	}
	t.Logf("commanded %d of 2 critical tasks, stfb commanded: %v, err: %v, environment state: %s", len(cmd), stfbCommanded, err, env.CurrentState())
	if err == nil && env.CurrentState() == "DEPLOYED" && !stfbCommanded {
		t.Fatalf("RESET succeeded and DEPLOYED is reported although the critical task 'stfb' (dead, never commanded) did not get there")
	}
}

// Same hole on the creation path (CreateEnvironment: DEPLOY, CONFIGURE, then subscribeToWfState): a critical task that
// dies after DEPLOY (TASK_FAILED => task state ERROR, role INACTIVE) is skipped by CONFIGURE, CONFIGURED is reported,
// and the watcher installed afterwards does nothing because the workflow is already in ERROR: the environment stays
// CONFIGURED with a dead critical task.
func TestAuditC02_DeadCriticalTaskBeforeConfigure(t *testing.T) {
	env, tm, _, commanded := auditC02Env(t)
	for _, r := range env.workflow.GetRoles() {
		r.(workflow.PublicUpdatable).UpdateStatus(task.ACTIVE)
	}
	env.Sm.SetState("DEPLOYED")
	for _, r := range env.workflow.GetRoles() {
		if r.GetName() == "stfb" { // what Manager.handleMessage/updateTaskStatus do on TASK_FAILED of a locked task
			r.(workflow.PublicUpdatable).UpdateState(sm.ERROR)
			r.(workflow.PublicUpdatable).UpdateStatus(task.INACTIVE)
		}
	}
	done := make(chan error, 1)
	go func() { done <- env.TryTransition(NewConfigureTransition(tm)) }()
	var err error
	select {
	case err = <-done:
	case <-time.After(20 * time.Second):
		t.Fatal("CONFIGURE did not return")
	}
	cmd := <-commanded
	env.subscribeToWfState(tm) // as CreateEnvironment does after a successful CONFIGURE
	time.Sleep(1500 * time.Millisecond)
	t.Logf("commanded %d of 2 critical tasks, err: %v, workflow state %s, environment state: %s", len(cmd), err, env.workflow.GetState(), env.CurrentState())
	if err == nil && env.CurrentState() == "CONFIGURED" {
		t.Fatalf("CONFIGURE succeeded and the environment stays CONFIGURED although a critical task is dead (workflow state %s)", env.workflow.GetState())
	}
}
