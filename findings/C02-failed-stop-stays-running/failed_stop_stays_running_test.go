package environment

// C02 audit: "If any critical task ... does not answer in time, the request returns an error, the destination state is
// never reported and the environment ends in ERROR". Only RpcServer.ControlEnvironment (and the auto-stop timer) follow a
// failed transition with GO_ERROR. The STOP_ACTIVITY that the environment manager itself fires on END_OF_STREAM
// (environment/manager.go:1116) or TASK_INTERNAL_ERROR (manager.go:1158) is only logged when it fails: a critical task
// that does not answer STOP leaves the environment in RUNNING.
// (uses helpers of dead_critical_skipped_test.go)

import (
	"errors"
	"reflect"
	"testing"
	"time"
	"unsafe"

	"github.com/AliceO2Group/Control/common/event"
	"github.com/AliceO2Group/Control/common/utils/uid"
	"github.com/AliceO2Group/Control/core/task"
	"github.com/AliceO2Group/Control/core/task/sm"
	"github.com/AliceO2Group/Control/core/task/taskclass"
	"github.com/AliceO2Group/Control/core/workflow"
	pb "github.com/AliceO2Group/Control/executor/protos"
	mesos "github.com/mesos/mesos-go/api/v1/lib"
	"github.com/spf13/viper"
	"gopkg.in/yaml.v3"
)

func auditField(ptrToStruct interface{}, name string) reflect.Value {
	f := reflect.ValueOf(ptrToStruct).Elem().FieldByName(name)
	return reflect.NewAt(f.Type(), unsafe.Pointer(f.UnsafeAddr())).Elem()
}

func TestAuditC02_FailedStopOnEndOfStreamLeavesRunning(t *testing.T) {
	viper.Set("config_endpoint", "mock://")
	envId := uid.New()
	env, err := newEnvironment(map[string]string{}, envId)
	if err != nil {
		t.Fatal(err)
	}
	root := workflow.NewAggregatorRole("root", nil)
	if err = yaml.Unmarshal([]byte(auditC02Wf), root); err != nil {
		t.Fatal(err)
	}
	workflow.LinkChildrenToParents(root)
	pf := reflect.ValueOf(root).Elem().FieldByName("roleBase").FieldByName("parent")
	reflect.NewAt(pf.Type(), unsafe.Pointer(pf.UnsafeAddr())).Elem().Set(reflect.ValueOf(env.wfAdapter))
	env.workflow = root

	tm := &task.Manager{MessageChannel: make(chan *task.TaskmanMessage)}
	rosterField := auditField(tm, "roster")
	rosterField.Set(reflect.New(rosterField.Type().Elem()))
	var all task.Tasks
	for i, r := range root.GetRoles() {
		tk := &task.Task{GetTaskClass: func() *taskclass.Class { return &taskclass.Class{} }}
		auditField(tk, "taskId").SetString([]string{"t-readout", "t-stfb"}[i])
		auditField(tk, "state").Set(reflect.ValueOf(sm.RUNNING))
		tk.SetParent(r.(auditParentRole))
		r.(auditTaskSetter).SetTask(tk)
		r.(workflow.PublicUpdatable).UpdateStatus(task.ACTIVE)
		tk.SetSafeToStop(true) // both tasks have announced END_OF_STREAM before
		all = append(all, tk)
	}
	rf := rosterField.Elem().FieldByName("tasks")
	reflect.NewAt(rf.Type(), unsafe.Pointer(rf.UnsafeAddr())).Elem().Set(reflect.ValueOf(all))

	go func() { // the task manager reports that the critical task stfb did not answer STOP in time
		for range tm.MessageChannel {
			env.stateChangedCh <- event.NewTasksStateChangedEvent(envId, nil,
				errors.New("STOP could not complete for critical tasks, errors: task 'stfb' ... MesosCommand_Transition timed out for task t-stfb"))
		}
	}()
	envs := NewEnvManager(tm, make(chan event.Event))
	envs.m[envId] = env
	env.Sm.SetState("RUNNING")

	if tk := tm.GetTask("t-stfb"); tk == nil || tk.GetEnvironmentId() != envId || !env.IsSafeToStop() {
		t.Fatalf("harness: task %v, safe to stop %v", tk, env.IsSafeToStop())
	}
	envs.handleDeviceEvent(event.NewDeviceEvent(
		event.DeviceEventOrigin{TaskId: mesos.TaskID{Value: "t-stfb"}}, pb.DeviceEventType_END_OF_STREAM))
	time.Sleep(2 * time.Second) // the STOP runs in a goroutine
	env.transitionMutex.Lock()   // no transition in flight any more
	env.transitionMutex.Unlock()
	if st := env.CurrentState(); st != "ERROR" {
		t.Fatalf("STOP_ACTIVITY failed for a critical task but the environment is left in %s, not ERROR", st)
	}
}
