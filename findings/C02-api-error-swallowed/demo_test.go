package core

// C02: a transition whose tasks fail must be answered with an error by ControlEnvironment (the request returns an
// error, the destination state is never reported, the environment ends in ERROR). Harness adapted from seeded/C01-3.

import (
	"context"
	"errors"
	"reflect"
	"testing"
	"time"
	"unsafe"

	"github.com/AliceO2Group/Control/common/event"
	"github.com/AliceO2Group/Control/common/utils/uid"
	"github.com/AliceO2Group/Control/core/environment"
	"github.com/AliceO2Group/Control/core/integration"
	"github.com/AliceO2Group/Control/core/integration/testplugin"
	pb "github.com/AliceO2Group/Control/core/protos"
	"github.com/AliceO2Group/Control/core/task"
	"github.com/AliceO2Group/Control/core/workflow"
	"github.com/spf13/viper"
)

//go:linkname c02fNewEnvironment github.com/AliceO2Group/Control/core/environment.newEnvironment
func c02fNewEnvironment(userVars map[string]string, newId uid.ID) (*environment.Environment, error)

// c02fField gives read/write access to an unexported struct field.
func c02fField(ptrToStruct interface{}, name string) reflect.Value {
	f := reflect.ValueOf(ptrToStruct).Elem().FieldByName(name)
	return reflect.NewAt(f.Type(), unsafe.Pointer(f.UnsafeAddr())).Elem()
}

func c02fRun(t *testing.T, failingTrigger string) (*pb.ControlEnvironmentReply, error, *environment.Environment) {
	integration.Reset()
	integration.RegisterPlugin("testplugin", "testPluginEndpoint", testplugin.NewPlugin)
	viper.Set("integrationPlugins", []string{"testplugin"})
	viper.Set("testPluginEndpoint", "http://example.com")
	viper.Set("config_endpoint", "mock://")

	tm := &task.Manager{MessageChannel: make(chan *task.TaskmanMessage)}
	go func() { // fake task manager: swallow any command
		for range tm.MessageChannel {
		}
	}()
	mgr := environment.NewEnvManager(tm, make(chan event.Event))

	envId := uid.New()
	env, err := c02fNewEnvironment(map[string]string{}, envId)
	if err != nil || env == nil {
		t.Fatalf("cannot create environment: %v", err)
	}

	// workflow without hooks; the task manager will report that the tasks failed to CONFIGURE
	wf := workflow.NewAggregatorRole("root", []workflow.Role{})
	workflow.LinkChildrenToParents(wf)
	_ = failingTrigger
	c02fField(env, "workflow").Set(reflect.ValueOf(wf))
	env.UserVars.Set("environment_id", envId.String())
	env.Sm.SetState("DEPLOYED")

	// register the environment with the manager
	c02fField(mgr, "m").SetMapIndex(reflect.ValueOf(envId), reflect.ValueOf(env))

	// the tasks of the environment (none) report a successful CONFIGURE
	stateChangedCh := c02fField(env, "stateChangedCh").Interface().(chan *event.TasksStateChangedEvent)
	go func() {
		select {
		case stateChangedCh <- event.NewTasksStateChangedEvent(envId, []string{}, errors.New("a critical task answered CONFIGURE with an error")):
		case <-time.After(10 * time.Second):
		}
	}()

	srv := &RpcServer{
		state:      &globalState{environments: mgr, taskman: tm},
		envStreams: newSafeStreamsMap(),
	}

	type result struct {
		reply *pb.ControlEnvironmentReply
		err   error
	}
	resCh := make(chan result, 1)
	go func() {
		r, e := srv.ControlEnvironment(context.Background(), &pb.ControlEnvironmentRequest{
			Id:   envId.String(),
			Type: pb.ControlEnvironmentRequest_CONFIGURE,
		})
		resCh <- result{r, e}
	}()
	select {
	case res := <-resCh:
		return res.reply, res.err, env
	case <-time.After(20 * time.Second):
		t.Fatal("ControlEnvironment did not return")
	}
	return nil, nil, nil
}


func TestC02FailedTransitionIsAnsweredWithAnError(t *testing.T) {
	reply, err, env := c02fRun(t, "")
	if reply == nil {
		t.Fatalf("no reply from ControlEnvironment (err=%v)", err)
	}
	if st := env.CurrentState(); st != "ERROR" {
		t.Fatalf("failed CONFIGURE left the environment in %s, expected ERROR", st)
	}
	if reply.State == "CONFIGURED" {
		t.Fatalf("failed CONFIGURE reported the destination state")
	}
	if err == nil {
		t.Fatalf("CONFIGURE failed in the tasks (environment now in %s) but ControlEnvironment returned no error", reply.State)
	}
}
