package environment

import (
	"context"
	"errors"
	"testing"
	"time"

	"github.com/AliceO2Group/Control/common/event"
	"github.com/AliceO2Group/Control/common/utils/uid"
	"github.com/AliceO2Group/Control/core/integration"
	"github.com/AliceO2Group/Control/core/integration/testplugin"
	"github.com/AliceO2Group/Control/core/task"
	"github.com/AliceO2Group/Control/core/task/taskop"
	"github.com/AliceO2Group/Control/core/workflow"
	"github.com/spf13/viper"
)

func c10Env(t *testing.T, roles ...workflow.Role) *Environment {
	integration.Reset()
	integration.RegisterPlugin("testplugin", "testPluginEndpoint", testplugin.NewPlugin)
	viper.Reset()
	viper.Set("integrationPlugins", []string{"testplugin"})
	viper.Set("testPluginEndpoint", "http://example.com")
	viper.Set("config_endpoint", "mock://")
	id, _ := uid.FromString("2oDvieFrVTi")
	env, err := newEnvironment(map[string]string{}, id)
	if err != nil {
		t.Fatal(err)
	}
	env.workflow = workflow.NewAggregatorRole("root", roles)
	workflow.LinkChildrenToParents(env.workflow)
	env.Sm.SetState("CONFIGURED")
	return env
}

func uv(env *Environment, k string) string {
	v, _ := env.workflow.GetUserVars().Get(k)
	return v
}

// fake task manager: answers every transition request with the given error
func c10Taskman(env *Environment, answer error) *task.Manager {
	tm := &task.Manager{MessageChannel: make(chan *task.TaskmanMessage)}
	go func() {
		for range tm.MessageChannel {
			env.stateChangedCh <- &event.TasksStateChangedEvent{EnvironmentId: env.id, TaskStateChangedErr: answer}
		}
	}()
	return tm
}

// the caller's pattern (core/server.go:631-645): failed transition => GO_ERROR, if refused => force ERROR
func c10Control(env *Environment, tr Transition, tm *task.Manager) error {
	err := env.TryTransition(tr)
	if err != nil {
		if e2 := env.TryTransition(NewGoErrorTransition(tm)); e2 != nil {
			env.Sm.SetState("ERROR")
		}
	}
	return err
}

// F1: a run ended by GO_ERROR keeps its run number for ever (ERROR, RECOVER, CONFIGURE hooks ...)
func TestC10_RunNumberSurvivesGoError(t *testing.T) {
	obs := workflow.NewCallRole("obs", task.Traits{Trigger: "before_RECOVER", Timeout: "5s", Critical: false, Await: "before_RECOVER"}, "testplugin.Test()", "")
	env := c10Env(t, obs)
	tm := c10Taskman(env, nil)
	if err := env.TryTransition(NewStartActivityTransition(tm)); err != nil {
		t.Fatal(err)
	}
	rn := env.GetCurrentRunNumber()
	if rn == 0 {
		t.Fatal("no run number")
	}
	if err := env.TryTransition(NewGoErrorTransition(tm)); err != nil {
		t.Fatal(err)
	}
	if env.Sm.Current() != "ERROR" || uv(env, "run_end_completion_time_ms") == "" {
		t.Fatal("setup")
	}
	if err := env.Sm.Event(context.Background(), "RECOVER", NewDummyTransition("RECOVER", false)); err != nil {
		t.Fatal(err)
	}
	v, ok := env.workflow.GetVars().Get("run_number")
	if env.GetCurrentRunNumber() != 0 || ok {
		t.Fatalf("run %d ended by GO_ERROR, env now %s after RECOVER: currentRunNumber=%d run_number=%q(present=%v)",
			rn, env.Sm.Current(), env.GetCurrentRunNumber(), v, ok)
	}
}

// F2: START_ACTIVITY whose task transition fails: currentRunNumber is zeroed but the run_number variable hooks read is not
func TestC10_FailedStartLeavesRunNumberVar(t *testing.T) {
	env := c10Env(t)
	tm := c10Taskman(env, errors.New("task X failed to START"))
	if err := c10Control(env, NewStartActivityTransition(tm), tm); err == nil {
		t.Fatal("expected failure")
	}
	v, ok := env.workflow.GetVars().Get("run_number")
	if env.GetCurrentRunNumber() != 0 || ok {
		t.Fatalf("state %s currentRunNumber=%d but run_number=%q still visible to hooks", env.Sm.Current(), env.GetCurrentRunNumber(), v)
	}
}

// F3: START_ACTIVITY cancelled by a failing non-negative before_START_ACTIVITY hook: the run number is kept altogether
func TestC10_FailedStartHookKeepsRunNumber(t *testing.T) {
	bad := workflow.NewCallRole("bad", task.Traits{Trigger: "before_START_ACTIVITY+10", Timeout: "5s", Critical: true, Await: "before_START_ACTIVITY+10"}, "testplugin.Test()", "")
	bad.GetVars().Set("testplugin_fail", "true")
	env := c10Env(t, bad)
	tm := c10Taskman(env, nil)
	if err := env.TryTransition(NewStartActivityTransition(tm)); err == nil {
		t.Fatal("expected failure")
	}
	if env.Sm.Current() != "CONFIGURED" {
		t.Fatal("state " + env.Sm.Current())
	}
	if env.GetCurrentRunNumber() != 0 {
		t.Fatalf("START_ACTIVITY was cancelled, state CONFIGURED, yet currentRunNumber=%d", env.GetCurrentRunNumber())
	}
}

// F4: run ended by an error while a critical before_GO_ERROR hook of negative weight fails: GO_ERROR is cancelled,
// the caller forces ERROR, neither end timestamp is ever set
func TestC10_EndTimestampsMissingWhenGoErrorHookFails(t *testing.T) {
	bad := workflow.NewCallRole("bad", task.Traits{Trigger: "before_GO_ERROR-10", Timeout: "5s", Critical: true, Await: "before_GO_ERROR-10"}, "testplugin.Test()", "")
	bad.GetVars().Set("testplugin_fail", "true")
	env := c10Env(t, bad)
	tmOk := c10Taskman(env, nil)
	if err := env.TryTransition(NewStartActivityTransition(tmOk)); err != nil {
		t.Fatal(err)
	}
	if e2 := env.TryTransition(NewGoErrorTransition(tmOk)); e2 != nil {
		env.Sm.SetState("ERROR") // server.go:644, environment.go:1213, manager.go:446/1004/1322
	}
	if env.Sm.Current() != "ERROR" {
		t.Fatal("state " + env.Sm.Current())
	}
	if uv(env, "run_end_time_ms") == "" || uv(env, "run_end_completion_time_ms") == "" {
		t.Fatalf("run %d is over (env ERROR) but run_end_time_ms=%q run_end_completion_time_ms=%q",
			env.GetCurrentRunNumber(), uv(env, "run_end_time_ms"), uv(env, "run_end_completion_time_ms"))
	}
}

// F4b: same with a failing hook of non-negative weight / leave_RUNNING: end set, end-completion never
func TestC10_EndCompletionMissingWhenLeaveRunningHookFails(t *testing.T) {
	bad := workflow.NewCallRole("bad", task.Traits{Trigger: "leave_RUNNING", Timeout: "5s", Critical: true, Await: "leave_RUNNING"}, "testplugin.Test()", "")
	bad.GetVars().Set("testplugin_fail", "true")
	env := c10Env(t, bad)
	tm := c10Taskman(env, nil)
	if err := env.TryTransition(NewStartActivityTransition(tm)); err != nil {
		t.Fatal(err)
	}
	_ = c10Control(env, NewStopActivityTransition(tm), tm) // STOP refused by the hook, GO_ERROR refused by the same hook, ERROR forced
	if env.Sm.Current() != "ERROR" {
		t.Fatal("state " + env.Sm.Current())
	}
	if uv(env, "run_end_time_ms") == "" || uv(env, "run_end_completion_time_ms") == "" {
		t.Fatalf("run over (env ERROR) but run_end_time_ms=%q run_end_completion_time_ms=%q",
			uv(env, "run_end_time_ms"), uv(env, "run_end_completion_time_ms"))
	}
}

// F5: after a clean STOP the start timestamp (and the other three) of the finished run stay visible, also to the
// negative-weight before_START_ACTIVITY hooks of the next run
func TestC10_TimestampsOfFinishedRunStayVisible(t *testing.T) {
	obs := workflow.NewCallRole("obs", task.Traits{Trigger: "before_START_ACTIVITY-10", Timeout: "5s", Critical: true, Await: "before_START_ACTIVITY-10"}, "testplugin.TimestampObserver()", "")
	env := c10Env(t, obs)
	tm := c10Taskman(env, nil)
	if err := env.TryTransition(NewStartActivityTransition(tm)); err != nil {
		t.Fatal(err)
	}
	if uv(env, "root.obs_saw_run_start_time_ms") != "" {
		t.Fatal("setup: first run must not see anything")
	}
	if err := env.TryTransition(NewStopActivityTransition(tm)); err != nil {
		t.Fatal(err)
	}
	after := uv(env, "run_start_time_ms")
	if err := env.TryTransition(NewStartActivityTransition(tm)); err != nil {
		t.Fatal(err)
	}
	if after != "" || uv(env, "root.obs_saw_run_end_time_ms") == "true" {
		t.Fatalf("after after_STOP_ACTIVITY run_start_time_ms=%q; hook before_START_ACTIVITY-10 of run 2 saw start=%q end=%q endCompletion=%q of run 1",
			after, uv(env, "root.obs_saw_run_start_time_ms"), uv(env, "root.obs_saw_run_end_time_ms"), uv(env, "root.obs_saw_run_end_completion_time_ms"))
	}
}

// F6: forced teardown while RUNNING sets both end timestamps, then fails on task release (environment stays RUNNING and
// listed); the STOP_ACTIVITY that follows writes run_end_completion_time_ms a second time
func TestC10_EndCompletionSetTwiceAfterFailedTeardown(t *testing.T) {
	env := c10Env(t)
	tm := &task.Manager{MessageChannel: make(chan *task.TaskmanMessage)}
	envs := &Manager{
		m:                    map[uid.ID]*Environment{env.id: env},
		taskman:              tm,
		pendingTeardownsCh:   make(map[uid.ID]chan *event.TasksReleasedEvent),
		pendingStateChangeCh: map[uid.ID]chan *event.TasksStateChangedEvent{env.id: env.stateChangedCh},
	}
	go func() {
		for m := range tm.MessageChannel {
			if m.GetMessageType() == taskop.ReleaseTasks {
				envs.mu.RLock()
				ch := envs.pendingTeardownsCh[env.id]
				envs.mu.RUnlock()
				ch <- &event.TasksReleasedEvent{EnvironmentId: env.id, TaskReleaseErrors: map[string]error{"t1": errors.New("cannot release")}}
				continue
			}
			envs.mu.RLock()
			ch, ok := envs.pendingStateChangeCh[env.id]
			envs.mu.RUnlock()
			if ok {
				ch <- &event.TasksStateChangedEvent{EnvironmentId: env.id}
			}
		}
	}()
	if err := env.TryTransition(NewStartActivityTransition(tm)); err != nil {
		t.Fatal(err)
	}
	if err := envs.TeardownEnvironment(env.id, true); err == nil {
		t.Fatal("teardown expected to fail")
	}
	if env.Sm.Current() != "RUNNING" {
		t.Fatal("state " + env.Sm.Current())
	}
	first := uv(env, "run_end_completion_time_ms")
	if first == "" {
		t.Fatal("setup: teardown should have set it")
	}
	time.Sleep(20 * time.Millisecond)
	if err := env.TryTransition(NewStopActivityTransition(tm)); err != nil {
		t.Fatal(err)
	}
	if second := uv(env, "run_end_completion_time_ms"); second != first {
		t.Fatalf("run_end_completion_time_ms written twice in one run: %s then %s", first, second)
	}
}
