package executable

// Replay for the C17 finding "a controllable task whose command cannot be started crashes the executor".
//
// ControllableTask.Launch's goroutine, after exec.Cmd.Start failed (no such binary, no permission), reported TASK_FAILED and
// then called doTermIntKill(-taskCmd.Process.Pid): Process is nil when Start failed, so the goroutine panicked and took the
// whole executor - and every other task it runs - down.

import (
	"encoding/json"
	"sync"
	"testing"
	"time"

	"github.com/AliceO2Group/Control/common"
	"github.com/AliceO2Group/Control/common/controlmode"
	"github.com/AliceO2Group/Control/common/event"
	"github.com/AliceO2Group/Control/common/utils/uid"
	mesos "github.com/mesos/mesos-go/api/v1/lib"
)

type c17fRec struct {
	mu       sync.Mutex
	statuses []mesos.TaskState
}

func (r *c17fRec) status(_ uid.ID, s mesos.TaskState, _ string) {
	r.mu.Lock()
	defer r.mu.Unlock()
	r.statuses = append(r.statuses, s)
}
func (r *c17fRec) devEvent(_ uid.ID, _ event.DeviceEvent) {}

func TestC17StartFailureCrashes(t *testing.T) {
	rec := &c17fRec{}
	shell := false
	value := "/nonexistent/c17-finding-binary"
	tci := common.TaskCommandInfo{ControlMode: controlmode.DIRECT, ControlPort: 47999}
	tci.Shell = &shell
	tci.Value = &value
	data, err := json.Marshal(&tci)
	if err != nil {
		t.Fatal(err)
	}
	ti := mesos.TaskInfo{Name: "c17f", TaskID: mesos.TaskID{Value: "c17f-ctl"}, Data: data,
		Executor: &mesos.ExecutorInfo{ExecutorID: mesos.ExecutorID{Value: "x"}}}
	task := NewTask(ti, rec.status, rec.devEvent, func([]byte) {})
	ct, ok := task.(*ControllableTask)
	if !ok {
		t.Fatalf("NewTask gave %T", task)
	}
	if err := ct.Launch(); err != nil {
		t.Fatal(err)
	}
	time.Sleep(1 * time.Second) // the launch goroutine panics (and the test binary dies) on the unrepaired code
	rec.mu.Lock()
	defer rec.mu.Unlock()
	if len(rec.statuses) != 1 || rec.statuses[0] != mesos.TASK_FAILED {
		t.Errorf("a task that could not be started must end with exactly one TASK_FAILED, got %v", rec.statuses)
	}
}
