package task

// Audit of C05 ("tasks are placed only where constraints and resources allow").
// In-package tests that drive the REAL offer handler (schedulerState.resourceOffers) with a fake Mesos caller.
//
//   cp /tmp/audit-C05/findings/c05_audit_test.go /tmp/audit-C05/core/task/zz_c05_audit_test.go
//   cd /tmp/audit-C05 && go test -vet=off -count=1 -timeout 120s -run TestC05Audit ./core/task

import (
	"context"
	"sync"
	"testing"

	"github.com/AliceO2Group/Control/common"
	"github.com/AliceO2Group/Control/common/controlmode"
	"github.com/AliceO2Group/Control/common/event"
	"github.com/AliceO2Group/Control/common/gera"
	"github.com/AliceO2Group/Control/common/utils/uid"
	"github.com/AliceO2Group/Control/core/task/channel"
	"github.com/AliceO2Group/Control/core/task/sm"
	"github.com/AliceO2Group/Control/core/task/taskclass"
	"github.com/AliceO2Group/Control/core/task/taskclass/port"
	mesos "github.com/mesos/mesos-go/api/v1/lib"
	"github.com/mesos/mesos-go/api/v1/lib/resources"
	"github.com/mesos/mesos-go/api/v1/lib/scheduler"
	"github.com/spf13/viper"
)

type auditRole struct{ path string }

func (r *auditRole) UpdateStatus(Status)                         {}
func (r *auditRole) UpdateState(sm.State)                        {}
func (r *auditRole) GetPath() string                             { return r.path }
func (r *auditRole) GetTaskClass() string                        { return "" }
func (r *auditRole) GetTaskTraits() Traits                       { return Traits{Timeout: "10s"} }
func (r *auditRole) SetTask(*Task)                               {}
func (r *auditRole) GetEnvironmentId() uid.ID                    { return uid.NilID() }
func (r *auditRole) CollectOutboundChannels() []channel.Outbound { return nil }
func (r *auditRole) GetDefaults() gera.Map[string, string]       { return gera.MakeMap[string, string]() }
func (r *auditRole) GetVars() gera.Map[string, string]           { return gera.MakeMap[string, string]() }
func (r *auditRole) GetUserVars() gera.Map[string, string]       { return gera.MakeMap[string, string]() }
func (r *auditRole) ConsolidatedVarStack() (map[string]string, error) {
	return map[string]string{}, nil
}
func (r *auditRole) CollectInboundChannels() []channel.Inbound { return nil }
func (r *auditRole) SendEvent(event.Event)                     {}
func (r *auditRole) GetName() string                           { return r.path }

type auditCaller struct {
	mu    sync.Mutex
	calls []*scheduler.Call
}

func (c *auditCaller) Call(_ context.Context, call *scheduler.Call) (mesos.Response, error) {
	c.mu.Lock()
	defer c.mu.Unlock()
	c.calls = append(c.calls, call)
	return nil, nil
}

// launched returns, per offer id, the TaskInfos of all ACCEPT/LAUNCH operations; declined the set of declined offers.
func (c *auditCaller) outcome() (launched map[string][]mesos.TaskInfo, declined map[string]bool) {
	launched = map[string][]mesos.TaskInfo{}
	declined = map[string]bool{}
	for _, call := range c.calls {
		if a := call.GetAccept(); a != nil {
			for _, op := range a.Operations {
				if l := op.GetLaunch(); l != nil && len(l.TaskInfos) > 0 {
					for _, o := range a.OfferIDs {
						launched[o.Value] = append(launched[o.Value], l.TaskInfos...)
					}
				}
			}
		}
		if d := call.GetDecline(); d != nil {
			for _, o := range d.OfferIDs {
				declined[o.Value] = true
			}
		}
	}
	return
}

func auditClass(name string, cpu, mem float64, static port.Ranges, bind []channel.Inbound) *taskclass.Class {
	val := "/bin/true"
	cls := &taskclass.Class{
		Identifier: taskclass.Id{Name: name},
		Defaults:   gera.MakeMap[string, string](),
		Vars:       gera.MakeMap[string, string](),
		Properties: gera.MakeMap[string, string](),
		Command:    &common.CommandInfo{Value: &val},
		Wants:      taskclass.ResourceWants{Cpu: &cpu, Memory: &mem, Ports: static},
		Bind:       bind,
	}
	cls.Control.Mode = controlmode.DIRECT
	return cls
}

func auditRun(t *testing.T, classes []*taskclass.Class, descriptors Descriptors, offers []mesos.Offer) (*auditCaller, ResourceOffersOutcome) {
	viper.Set("config_endpoint", "mock://")
	m := &Manager{classes: taskclass.NewClasses(), roster: newRoster()}
	for _, c := range classes {
		m.classes.UpdateClass(c.Identifier.Name, c)
	}
	cli := &auditCaller{}
	state := &schedulerState{
		taskman:       m,
		executor:      &mesos.ExecutorInfo{ExecutorID: mesos.ExecutorID{Value: "x"}, Command: &mesos.CommandInfo{}},
		metricsAPI:    newMetricsAPI(),
		cli:           cli,
		tasksToDeploy: make(chan *ResourceOffersDeploymentRequest, 1),
	}
	outcomeCh := make(chan ResourceOffersOutcome, 1)
	state.tasksToDeploy <- &ResourceOffersDeploymentRequest{tasksToDeploy: descriptors, envId: uid.New(), outcomeCh: outcomeCh}
	ev := &scheduler.Event{Type: scheduler.Event_OFFERS, Offers: &scheduler.Event_Offers{Offers: offers}}
	if err := state.resourceOffers(nil)(context.Background(), ev); err != nil {
		t.Fatalf("resourceOffers: %v", err)
	}
	return cli, <-outcomeCh
}

func portsRes(spans ...uint64) mesos.Resource {
	b := resources.BuildRanges()
	for i := 0; i+1 < len(spans); i += 2 {
		b = b.Span(spans[i], spans[i+1])
	}
	return resources.Build().Name(resources.Name("ports")).Ranges(b.Ranges).Resource
}

func tcpIn(name string) channel.Inbound {
	return channel.Inbound{Channel: channel.Channel{Name: name, Type: channel.PULL}, Addressing: channel.TCP}
}

func portSet(rs mesos.Resources) map[uint64]bool {
	out := map[uint64]bool{}
	p, _ := resources.Ports(rs...)
	for _, r := range p {
		for x := r.Begin; x <= r.End; x++ {
			out[x] = true
		}
	}
	return out
}

// (1) CPU and memory of a launched task are never taken off what is left of the offer: an offer of 1 CPU / 1024 MB
// receives two tasks of 1 CPU / 1024 MB each.
func TestC05AuditScalarsOversubscribed(t *testing.T) {
	cls := auditClass("heavy", 1, 1024, nil, nil)
	ds := Descriptors{
		{TaskRole: &auditRole{path: "root.a"}, TaskClassName: "heavy"},
		{TaskRole: &auditRole{path: "root.b"}, TaskClassName: "heavy"},
	}
	offer := mesos.Offer{ID: mesos.OfferID{Value: "o1"}, Hostname: "host1", AgentID: mesos.AgentID{Value: "a1"},
		Resources: mesos.Resources{resources.NewCPUs(1).Resource, resources.NewMemory(1024).Resource, portsRes(9000, 9100, 30000, 30100)}}
	cli, _ := auditRun(t, []*taskclass.Class{cls}, ds, []mesos.Offer{offer})
	launched, _ := cli.outcome()
	var cpu, mem float64
	for _, ti := range launched["o1"] {
		c, _ := resources.CPUs(ti.Resources...)
		mm, _ := resources.Memory(ti.Resources...)
		cpu += c
		mem += float64(mm)
	}
	t.Logf("tasks launched on o1: %d, requested cpus=%v mem=%v, offered cpus=1 mem=1024", len(launched["o1"]), cpu, mem)
	if cpu > 1 || mem > 1024 {
		t.Fatalf("requests of the tasks launched on one offer exceed the offer: cpus %v > 1, mem %v > 1024", cpu, mem)
	}
}

// (2) static ports are never taken off what is left of the offer: the dynamic port of a task's channel is one of the
// task's own static ports, and two tasks of the class on one offer get the same static AND dynamic-range ports... 
func TestC05AuditStaticPortGivenAgainAsDynamicPort(t *testing.T) {
	cls := auditClass("static", 0.1, 16, port.Ranges{{Begin: 9000, End: 9001}}, []channel.Inbound{tcpIn("data")})
	ds := Descriptors{{TaskRole: &auditRole{path: "root.a"}, TaskClassName: "static"}}
	offer := mesos.Offer{ID: mesos.OfferID{Value: "o1"}, Hostname: "host1", AgentID: mesos.AgentID{Value: "a1"},
		Resources: mesos.Resources{resources.NewCPUs(4).Resource, resources.NewMemory(4096).Resource, portsRes(9000, 9100, 30000, 30100)}}
	cli, out := auditRun(t, []*taskclass.Class{cls}, ds, []mesos.Offer{offer})
	launched, _ := cli.outcome()
	if len(launched["o1"]) != 1 {
		t.Fatalf("expected one launch, got %d", len(launched["o1"]))
	}
	for tk := range out.deployed {
		ep := tk.localBindMap["data"].(channel.TcpEndpoint)
		t.Logf("static ports 9000-9001, channel 'data' bound to port %d", ep.Port)
		if ep.Port >= 9000 && ep.Port <= 9001 {
			t.Fatalf("the dynamic port of channel 'data' (%d) is one of the task's static ports 9000-9001: ports of one task not pairwise distinct", ep.Port)
		}
	}
}

// (2b) two tasks with the same static range on one offer: both get it.
func TestC05AuditStaticPortsSharedByTwoTasks(t *testing.T) {
	cls := auditClass("static", 0.1, 16, port.Ranges{{Begin: 9050, End: 9050}}, nil)
	ds := Descriptors{
		{TaskRole: &auditRole{path: "root.a"}, TaskClassName: "static"},
		{TaskRole: &auditRole{path: "root.b"}, TaskClassName: "static"},
	}
	offer := mesos.Offer{ID: mesos.OfferID{Value: "o1"}, Hostname: "host1", AgentID: mesos.AgentID{Value: "a1"},
		Resources: mesos.Resources{resources.NewCPUs(4).Resource, resources.NewMemory(4096).Resource, portsRes(9000, 9100, 30000, 30100)}}
	cli, _ := auditRun(t, []*taskclass.Class{cls}, ds, []mesos.Offer{offer})
	launched, _ := cli.outcome()
	n := 0
	for _, ti := range launched["o1"] {
		if portSet(ti.Resources)[9050] {
			n++
		}
	}
	t.Logf("tasks launched on o1: %d, of which %d request port 9050", len(launched["o1"]), n)
	if n > 1 {
		t.Fatalf("%d tasks launched on the same offer were all handed static port 9050", n)
	}
}

// (3) offered ports that carry a role (framework registered with mesosFrameworkRole, reserved ports): Subtract is a
// no-op (role "*" of the built resource != role of the offered one), every channel and every task gets the same port.
func TestC05AuditPortsOfARoleNeverSubtracted(t *testing.T) {
	cls := auditClass("twochan", 0.1, 16, nil, []channel.Inbound{tcpIn("in1"), tcpIn("in2")})
	ds := Descriptors{{TaskRole: &auditRole{path: "root.a"}, TaskClassName: "twochan"}}
	role := "o2"
	pr := portsRes(9000, 9100, 30000, 30100)
	pr.Role = &role
	offer := mesos.Offer{ID: mesos.OfferID{Value: "o1"}, Hostname: "host1", AgentID: mesos.AgentID{Value: "a1"},
		Resources: mesos.Resources{resources.NewCPUs(4).Resource, resources.NewMemory(4096).Resource, pr}}
	_, out := auditRun(t, []*taskclass.Class{cls}, ds, []mesos.Offer{offer})
	if len(out.deployed) != 1 {
		t.Fatalf("expected one task, got %d", len(out.deployed))
	}
	for tk := range out.deployed {
		p1 := tk.localBindMap["in1"].(channel.TcpEndpoint).Port
		p2 := tk.localBindMap["in2"].(channel.TcpEndpoint).Port
		t.Logf("in1 -> %d, in2 -> %d", p1, p2)
		if p1 == p2 {
			t.Fatalf("both inbound channels of one task were bound to port %d", p1)
		}
	}
}

// (4) Satisfy does not ask for the control port: an offer without a port >= 30000 is accepted, the task is then given up
// AFTER the offer was taken off the decline list: the offer is neither used nor declined.
func TestC05AuditUnusedOfferNotDeclined(t *testing.T) {
	cls := auditClass("plain", 0.1, 16, nil, nil)
	ds := Descriptors{{TaskRole: &auditRole{path: "root.a"}, TaskClassName: "plain"}}
	offer := mesos.Offer{ID: mesos.OfferID{Value: "o1"}, Hostname: "host1", AgentID: mesos.AgentID{Value: "a1"},
		Resources: mesos.Resources{resources.NewCPUs(4).Resource, resources.NewMemory(4096).Resource, portsRes(9000, 9100)}}
	cli, out := auditRun(t, []*taskclass.Class{cls}, ds, []mesos.Offer{offer})
	launched, declined := cli.outcome()
	t.Logf("launched on o1: %d, declined: %v, deployed %d undeployed %d", len(launched["o1"]), declined["o1"], len(out.deployed), len(out.undeployed))
	if len(launched["o1"]) == 0 && !declined["o1"] {
		t.Fatalf("offer o1 was not used for any task and was not declined")
	}
}

// (5) a reversed static range "9010-9000" is parsed without error and accepted by Resources.Satisfy on an offer that
// contains none of the ports 9000..9010 below/above its own two ports (here the offer has only 9005-9006).
func TestC05AuditReversedStaticRangeAccepted(t *testing.T) {
	rs, err := port.RangesFromExpression("9010-9000")
	if err != nil {
		t.Skipf("refused at parse time: %v", err)
	}
	offered := mesos.Resources{resources.NewCPUs(4).Resource, resources.NewMemory(4096).Resource, portsRes(9005, 9006)}
	if Resources(offered).Satisfy(&Wants{Cpu: 1, Memory: 1, StaticPorts: rs}) {
		t.Fatalf("static range %v accepted on an offer with ports 9005-9006 only", rs)
	}
}
