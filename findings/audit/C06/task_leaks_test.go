package task

// C06 audit, three ways in which a failed environment creation leaves tasks behind. All of them drive the real
// task.Manager (acquireTasks, releaseTasks, KillTasks, Cleanup); stand-ins: the workflow role that owns a task, the Mesos
// client (records KILL calls) and the offer handler of the scheduler (answers deployment requests).
// The environment side is the exact sequence CreateEnvironment runs after a failed DEPLOY (environment/manager.go:550-557):
//   envTasks := env.Workflow().GetTasks(); TeardownEnvironment (=> ReleaseTasks(envTasks)); taskman.KillTasks(envTasks ids)

import (
	"context"
	"sync"
	"testing"
	"time"

	"github.com/AliceO2Group/Control/common/event"
	"github.com/AliceO2Group/Control/common/gera"
	"github.com/AliceO2Group/Control/common/utils/safeacks"
	"github.com/AliceO2Group/Control/common/utils/uid"
	"github.com/AliceO2Group/Control/core/task/channel"
	"github.com/AliceO2Group/Control/core/task/sm"
	"github.com/AliceO2Group/Control/core/task/taskclass"
	"github.com/mesos/mesos-go/api/v1/lib"
	"github.com/mesos/mesos-go/api/v1/lib/scheduler"
	"github.com/mesos/mesos-go/api/v1/lib/scheduler/calls"
)

type auditRole struct {
	mu       sync.Mutex
	envId    uid.ID
	path     string
	critical bool
	task     *Task
}

func (r *auditRole) UpdateStatus(Status)                         {}
func (r *auditRole) UpdateState(sm.State)                        {}
func (r *auditRole) GetPath() string                             { return r.path }
func (r *auditRole) GetTaskClass() string                        { return "cls" }
func (r *auditRole) GetTaskTraits() Traits                       { return Traits{Critical: r.critical} }
func (r *auditRole) SetTask(t *Task)                             { r.mu.Lock(); r.task = t; r.mu.Unlock() }
func (r *auditRole) GetEnvironmentId() uid.ID                    { return r.envId }
func (r *auditRole) CollectOutboundChannels() []channel.Outbound { return nil }
func (r *auditRole) GetDefaults() gera.Map[string, string]       { return gera.MakeMap[string, string]() }
func (r *auditRole) GetVars() gera.Map[string, string]           { return gera.MakeMap[string, string]() }
func (r *auditRole) GetUserVars() gera.Map[string, string]       { return gera.MakeMap[string, string]() }
func (r *auditRole) ConsolidatedVarStack() (map[string]string, error) {
	return map[string]string{}, nil
}
func (r *auditRole) CollectInboundChannels() []channel.Inbound { return nil }
func (r *auditRole) SendEvent(event.Event)                     {}
func (r *auditRole) GetName() string                           { return r.path }

// what workflow taskRole.GetTasks() gives
func (r *auditRole) tasks() Tasks {
	r.mu.Lock()
	defer r.mu.Unlock()
	if r.task == nil {
		return Tasks{}
	}
	return Tasks{r.task}
}

// a task as the scheduler's offer handler makes it (newTaskForMesosOffer): owned by its role from birth, INACTIVE
func auditLaunched(id string, parent parentRole) *Task {
	t := &Task{
		name: "cls#" + id, className: "cls", hostname: "flp1", agentId: "agent-flp1", offerId: "offer-" + id,
		taskId: id, executorId: "exec-flp1", state: sm.STANDBY, status: INACTIVE, parent: parent,
	}
	t.GetTaskClass = func() *taskclass.Class { return nil }
	return t
}

type auditHarness struct {
	m        *Manager
	events   chan event.Event
	requests chan *ResourceOffersDeploymentRequest
	killMu   sync.Mutex
	kills    []string
}

func newAuditHarness() *auditHarness {
	h := &auditHarness{
		events:   make(chan event.Event, 64),
		requests: make(chan *ResourceOffersDeploymentRequest, 16),
	}
	h.m = &Manager{
		roster:          newRoster(),
		classes:         taskclass.NewClasses(),
		ackKilledTasks:  safeacks.NewAcks(),
		internalEventCh: h.events,
		tasksToDeploy:   h.requests,
		reviveOffersTrg: make(chan struct{}),
	}
	h.m.schedulerState = &schedulerState{
		cli: calls.CallerFunc(func(_ context.Context, c *scheduler.Call) (mesos.Response, error) {
			if k := c.GetKill(); k != nil {
				h.killMu.Lock()
				h.kills = append(h.kills, k.GetTaskID().Value)
				h.killMu.Unlock()
			}
			return nil, nil
		}),
	}
	return h
}

func (h *auditHarness) killed(id string) bool {
	h.killMu.Lock()
	defer h.killMu.Unlock()
	for _, k := range h.kills {
		if k == id {
			return true
		}
	}
	return false
}

// the scheduler side of one deployment attempt: revive handshake, then the verdict
func (h *auditHarness) serveAttempt(answer func(req *ResourceOffersDeploymentRequest) ResourceOffersOutcome) {
	<-h.m.reviveOffersTrg
	h.m.reviveOffersTrg <- struct{}{}
	req := <-h.requests
	req.outcomeCh <- answer(req)
}

// the cleanup CreateEnvironment performs when DEPLOY failed
func (h *auditHarness) failedCreationCleanup(envId uid.ID, roles ...*auditRole) {
	envTasks := Tasks{}
	for _, r := range roles {
		envTasks = append(envTasks, r.tasks()...)
	}
	_ = h.m.releaseTasks(envId, envTasks) // TeardownEnvironment -> ReleaseTasks message -> releaseTasks
	<-h.events                            // TasksReleasedEvent
	_, _, _ = h.m.KillTasks(envTasks.GetTaskIds())
}

// 1. DEPLOY times out because a task has not reported TASK_RUNNING yet (status still INACTIVE: staging, fetching,
// starting). The cleanup releases it and asks KillTasks for it; doKillTasks drops every non-ACTIVE task from the roster
// WITHOUT a kill request (manager.go:1163-1172, 1182). The task starts a moment later and runs for ever, unknown to the
// roster (its TASK_RUNNING is answered "attempted status update of task not in roster").
func TestAuditC06SlowStartingTaskIsNeverKilled(t *testing.T) {
	h := newAuditHarness()
	envId := uid.New()
	role := &auditRole{envId: envId, path: "root.slow", critical: true}
	slow := auditLaunched("task-slow", role)
	role.SetTask(slow)
	h.m.roster.append(slow) // state after a successful acquireTasks, TASK_RUNNING still to come

	h.failedCreationCleanup(envId, role) // DEPLOY timed out

	// the task now reports TASK_RUNNING (handleMessage: go m.updateTaskStatus). Not in the roster any more: the update
	// is dropped, and the goroutine even blocks for ever in ackKilledTasks.TrySendAck, because KillTasks registered an
	// ack for the task (manager.go:1136-1141) which it only collects for tasks it really killed (manager.go:1146).
	st := mesos.TASK_RUNNING
	go h.m.updateTaskStatus(&mesos.TaskStatus{TaskID: mesos.TaskID{Value: "task-slow"}, State: &st})
	time.Sleep(200 * time.Millisecond)

	if !h.killed("task-slow") {
		t.Errorf("task-slow was launched for and owned by environment %s; after the failed creation it was never asked to terminate "+
			"(KILL calls: %v) and it is not in the roster any more (in roster: %v), so no later cleanup will find it",
			envId, h.kills, h.m.GetTask("task-slow") != nil)
	}
}

// 2. acquireTasks retries a deployment in which a critical task could not be placed. Every attempt starts from an empty
// deployedTasks map and asks for ALL descriptors again (manager.go:522-537): what the previous attempt launched is
// forgotten - never put into the roster, never released (parent role still set), never killed.
func TestAuditC06TasksOfFailedDeploymentAttemptAreForgotten(t *testing.T) {
	h := newAuditHarness()
	envId := uid.New()
	roleA := &auditRole{envId: envId, path: "root.a", critical: true}
	roleB := &auditRole{envId: envId, path: "root.b", critical: true}
	dA := &Descriptor{TaskRole: roleA, TaskClassName: "cls"}
	dB := &Descriptor{TaskRole: roleB, TaskClassName: "cls"}

	first := auditLaunched("task-a-attempt1", roleA)
	go func() {
		// attempt 1: a is launched, no offer fits b
		h.serveAttempt(func(*ResourceOffersDeploymentRequest) ResourceOffersOutcome {
			return ResourceOffersOutcome{deployed: DeploymentMap{first: dA}, undeployed: Descriptors{dB}}
		})
		// attempts 2 and 3: nothing fits any more
		for i := 0; i < 2; i++ {
			h.serveAttempt(func(*ResourceOffersDeploymentRequest) ResourceOffersOutcome {
				return ResourceOffersOutcome{deployed: DeploymentMap{}, undeployed: Descriptors{dA, dB}}
			})
		}
	}()

	err := h.m.acquireTasks(envId, Descriptors{dA, dB})
	if err == nil {
		t.Fatalf("deployment was expected to fail")
	}
	h.failedCreationCleanup(envId, roleA, roleB)
	_, _, _ = h.m.Cleanup() // "the next cleanup"

	if first.GetParent() != nil || first.GetEnvironmentId() == envId {
		t.Errorf("task-a-attempt1 is still owned by environment %s after its creation failed", envId)
	}
	if !h.killed("task-a-attempt1") {
		t.Errorf("task-a-attempt1 was launched for environment %s and never asked to terminate, not even by the next cleanup "+
			"(KILL calls: %v, in roster: %v)", envId, h.kills, h.m.GetTask("task-a-attempt1") != nil)
	}
}

// 3. DEPLOY gives up (deploy_timeout) while acquireTasks still waits for the scheduler's verdict. The creation fails, the
// environment is torn down and removed (nothing to release: no role has a task yet). The verdict arrives afterwards and
// acquireTasks carries on as if nothing happened (manager.go:589-656): the tasks enter the roster owned by the
// environment that no longer exists. Owned tasks are skipped by Cleanup and KillTasks, so they stay for ever.
func TestAuditC06DeploymentFinishingAfterTheTeardown(t *testing.T) {
	h := newAuditHarness()
	envId := uid.New()
	role := &auditRole{envId: envId, path: "root.a", critical: true}
	d := &Descriptor{TaskRole: role, TaskClassName: "cls"}
	late := auditLaunched("task-late", role)

	tornDown := make(chan struct{})
	go h.serveAttempt(func(*ResourceOffersDeploymentRequest) ResourceOffersOutcome {
		<-tornDown // offers are slow to come
		return ResourceOffersOutcome{deployed: DeploymentMap{late: d}}
	})
	acquired := make(chan error, 1)
	go func() { acquired <- h.m.acquireTasks(envId, Descriptors{d}) }()

	time.Sleep(200 * time.Millisecond)   // DeployTransition.do: deploy_timeout expires
	h.failedCreationCleanup(envId, role) // CreateEnvironment gives up; the environment is gone
	close(tornDown)
	<-acquired
	late.status = ACTIVE // TASK_RUNNING
	_, _, _ = h.m.Cleanup()

	if late.IsLocked() && late.GetEnvironmentId() == envId {
		t.Errorf("task-late is in the roster (%v), owned by environment %s which was torn down before the deployment finished; "+
			"it was never asked to terminate (KILL calls: %v) and Cleanup skips it because it is owned",
			h.m.GetTask("task-late") != nil, envId, h.kills)
	}
}
