package workflow

import (
	"fmt"
	"math/rand"
	"testing"

	"github.com/AliceO2Group/Control/core/repos"
	"github.com/AliceO2Group/Control/core/task"
	"github.com/AliceO2Group/Control/core/task/sm"
	"github.com/spf13/viper"
	"gopkg.in/yaml.v3"
)

const c11SeqWorkflow = `
name: root
defaults:
  hosts: '["h1","h2","h3"]'
roles:
  - name: "flp-{{ it }}"
    for:
      range: "{{ hosts }}"
      var: it
    roles:
      - name: readout
        task:
          load: readout
      - name: mon
        task:
          load: mon
          critical: false
      - name: "inner-{{ jt }}"
        for:
          begin: 0
          end: 1
          var: jt
        task:
          load: stfb
      - name: hook
        call:
          func: foo()
          trigger: before_START
          critical: true
  - name: "qc-{{ it }}"
    for:
      range: "{{ hosts }}"
      var: it
    task:
      load: qc
  - name: sub
    include: subwf
  - name: plain
    roles:
      - name: deep
        roles:
          - name: t1
            task:
              load: x
          - name: t2
            task:
              load: x
              critical: false
      - name: t3
        task:
          load: x
`
const c11SubWorkflow = `
name: subwf
roles:
  - name: s1
    task:
      load: x
  - name: sagg
    roles:
      - name: s2
        task:
          load: x
      - name: s3
        call:
          func: bar()
          trigger: after_STOP
          critical: false
`

func c11RefState(r Role) sm.State {
	switch x := r.(type) {
	case *taskRole:
		if !x.Critical {
			return sm.INVARIANT
		}
		return x.GetState()
	case *callRole:
		if !x.Critical {
			return sm.INVARIANT
		}
		return x.GetState()
	}
	s := sm.INVARIANT
	for _, c := range r.GetRoles() {
		s = s.X(c11RefState(c))
	}
	return s
}

func c11RefStatus(r Role) task.Status {
	switch r.(type) {
	case *taskRole, *callRole:
		return r.GetStatus()
	}
	rs := r.GetRoles()
	if len(rs) == 0 {
		return task.UNDEFINED
	}
	s := c11RefStatus(rs[0])
	for _, c := range rs[1:] {
		s = s.X(c11RefStatus(c))
	}
	return s
}

func c11HasCritical(r Role) bool {
	switch x := r.(type) {
	case *taskRole:
		return x.Critical
	case *callRole:
		return x.Critical
	}
	for _, c := range r.GetRoles() {
		if c11HasCritical(c) {
			return true
		}
	}
	return false
}

func TestC11SequentialRandom(t *testing.T) {
	viper.Set("config_endpoint", "mock://")
	_, repo, _ := repos.NewRepo("/home/user/git/ControlWorkflows", "", "/var/lib/o2/aliecs/repos")
	root := new(aggregatorRole)
	if err := yaml.Unmarshal([]byte(c11SeqWorkflow), root); err != nil {
		t.Fatalf("unmarshal: %v", err)
	}
	var load LoadSubworkflowFunc = func(expr string, parent Updatable) (*aggregatorRole, repos.IRepo, error) {
		r := new(aggregatorRole)
		r.parent = parent
		if err := yaml.Unmarshal([]byte(c11SubWorkflow), r); err != nil {
			return nil, nil, err
		}
		if parent != nil {
			r.setParent(parent)
		}
		return r, &repo, nil
	}
	if err := root.ProcessTemplates(&repo, load, map[string]string{}); err != nil {
		t.Fatalf("process: %v", err)
	}
	var leaves, inner []Role
	Walk(root, func(r Role) {
		switch r.(type) {
		case *taskRole, *callRole:
			leaves = append(leaves, r)
		case *iteratorRole:
		default:
			inner = append(inner, r)
		}
	})
	t.Logf("%d leaves, %d inner roles", len(leaves), len(inner))
	if len(leaves) < 20 {
		t.Fatalf("tree too small: %d", len(leaves))
	}
	states := []sm.State{sm.STANDBY, sm.CONFIGURED, sm.RUNNING, sm.ERROR, sm.DONE, sm.UNKNOWN}
	stati := []task.Status{task.INACTIVE, task.ACTIVE, task.PARTIAL, task.UNDEPLOYABLE}
	rng := rand.New(rand.NewSource(1))
	check := func(step int, what string) {
		for _, r := range inner {
			if !c11HasCritical(r) {
				continue // known finding C11-no-critical-descendant
			}
			if got, want := r.GetState(), c11RefState(r); got != want {
				t.Fatalf("step %d (%s): %s reports state %s, fold is %s", step, what, r.GetPath(), got, want)
			}
			if got, want := r.GetStatus(), c11RefStatus(r); got != want {
				t.Fatalf("step %d (%s): %s reports status %s, fold is %s", step, what, r.GetPath(), got, want)
			}
		}
	}
	check(-1, "initial")
	for step := 0; step < 20000; step++ {
		l := leaves[rng.Intn(len(leaves))].(PublicUpdatable)
		var what string
		switch rng.Intn(3) {
		case 0:
			st := stati[rng.Intn(len(stati))]
			l.UpdateStatus(st)
			what = fmt.Sprintf("%s status %s", l.(Role).GetPath(), st)
		case 1:
			st := states[rng.Intn(len(states))]
			l.UpdateState(st)
			what = fmt.Sprintf("%s state %s", l.(Role).GetPath(), st)
		case 2:
			// bring everything to a common state from time to time
			st := states[rng.Intn(3)]
			for _, x := range leaves {
				x.(PublicUpdatable).UpdateState(st)
			}
			what = fmt.Sprintf("all -> %s", st)
		}
		check(step, what)
	}
}
