package workflow

import (
	"runtime"
	"sync"
	"testing"

	"github.com/AliceO2Group/Control/common/event"
	"github.com/AliceO2Group/Control/common/gera"
	"github.com/AliceO2Group/Control/common/utils/uid"
	"github.com/AliceO2Group/Control/core/task"
	"github.com/AliceO2Group/Control/core/task/sm"
	"gopkg.in/yaml.v3"
)

const c11Tree = `
name: root
roles:
  - name: q
    roles:
      - name: a
        task:
          load: someclass
          critical: true
      - name: b
        task:
          load: someclass
          critical: true
`

func c11Load(t testing.TB, send SendEvents) (root *aggregatorRole, q *aggregatorRole, a, b *taskRole) {
	root = new(aggregatorRole)
	if err := yaml.Unmarshal([]byte(c11Tree), root); err != nil {
		t.Fatalf("cannot unmarshal workflow: %v", err)
	}
	LinkChildrenToParents(root)
	if send != nil {
		m := gera.MakeMap[string, string]()
		pa := NewParentAdapter(
			func() uid.ID { return uid.NilID() },
			func() uint32 { return 0 },
			func() gera.Map[string, string] { return m },
			func() gera.Map[string, string] { return m },
			func() gera.Map[string, string] { return m },
			send)
		root.setParent(pa)
	}
	q = root.GetRoles()[0].(*aggregatorRole)
	a = q.GetRoles()[0].(*taskRole)
	b = q.GetRoles()[1].(*taskRole)
	return
}

// critical-descendant fold of the whole tree, computed from the leaves
func c11Expected(a, b *taskRole) sm.State {
	return sm.INVARIANT.X(a.GetState()).X(b.GetState())
}

// DETERMINISTIC. Two updates of the SAME critical task are in flight together (task.Manager.handleMessage starts
// `go m.updateTaskState(...)` per message, and environment.Manager spawns `go t.GetParent().UpdateState(sm.ERROR)`):
// the first (ERROR) has written the leaf and is between its own merge and the hand-over to the parent
// (taskrole.go:277-279 forwards the PARAMETER s, not the leaf's current state), the second (CONFIGURED) runs to completion,
// then the first resumes: SafeState.merge takes the `case s == sm.ERROR` shortcut (safestate.go:77) without looking at
// the children. No critical task is in ERROR, q and root report ERROR for ever.
func TestC11StaleErrorInventedAtRoot(t *testing.T) {
	var a *taskRole
	reached := make(chan struct{})
	resume := make(chan struct{})
	var once sync.Once
	send := func(ev event.Event) {
		re, ok := ev.(*event.RoleEvent)
		if ok && re.RolePath == "root.q.a" && re.State == "ERROR" {
			once.Do(func() {
				close(reached)
				<-resume
			})
		}
	}
	root, q, a, b := c11Load(t, send)
	a.UpdateState(sm.CONFIGURED)
	b.UpdateState(sm.CONFIGURED)
	if root.GetState() != sm.CONFIGURED {
		t.Fatalf("setup: root is %s", root.GetState())
	}

	done := make(chan struct{})
	go func() { a.UpdateState(sm.ERROR); close(done) }() // update 1, stalls after writing the leaf
	<-reached
	a.UpdateState(sm.CONFIGURED) // update 2 (the task recovered), complete
	close(resume)
	<-done

	if a.GetState() == sm.ERROR || b.GetState() == sm.ERROR {
		t.Fatalf("setup: a leaf is in ERROR")
	}
	want := c11Expected(a, b)
	if root.GetState() != want || q.GetState() != want {
		t.Fatalf("leaves a=%s b=%s (no critical task in ERROR), fold is %s, but q reports %s and root reports %s",
			a.GetState(), b.GetState(), want, q.GetState(), root.GetState())
	}
}

// STRESS, updates of DIFFERENT tasks only. Round: a: ->RUNNING, b: ->RUNNING concurrently, then both ->CONFIGURED
// concurrently. After every round everything is quiescent and all leaves agree, so q and root must report that state.
// A thread that read q's intermediate MIXED (aggregatorrole.go:322 reads r.state.get() and then calls the parent) and
// reaches root after the other thread has already stored the final state makes root take the
// `s == sm.MIXED && t.state != sm.ERROR` shortcut (safestate.go:74): root stays MIXED.
func TestC11StaleMixedAtRoot(t *testing.T) {
	runtime.GOMAXPROCS(4)
	root, q, a, b := c11Load(t, nil)
	a.UpdateState(sm.CONFIGURED)
	b.UpdateState(sm.CONFIGURED)
	for round := 0; round < 2000000; round++ {
		st := sm.RUNNING
		if round%2 == 1 {
			st = sm.CONFIGURED
		}
		var wg sync.WaitGroup
		wg.Add(2)
		go func() { defer wg.Done(); a.UpdateState(st) }()
		go func() { defer wg.Done(); b.UpdateState(st) }()
		wg.Wait()
		if root.GetState() != st || q.GetState() != st {
			t.Fatalf("round %d: all leaves are %s (a=%s b=%s) but q reports %s and root reports %s",
				round, st, a.GetState(), b.GetState(), q.GetState(), root.GetState())
		}
	}
}

// STRESS, updates of DIFFERENT tasks only, ERROR invented at the root. a is in ERROR; concurrently a recovers
// (-> CONFIGURED) and b moves (-> RUNNING). b's thread may read q == ERROR (still true at that moment) and deliver it to
// root after a's thread has already cleared it there.
func TestC11ErrorInventedAtRootDifferentTasks(t *testing.T) {
	runtime.GOMAXPROCS(4)
	root, q, a, b := c11Load(t, nil)
	for round := 0; round < 2000000; round++ {
		a.UpdateState(sm.ERROR)
		b.UpdateState(sm.CONFIGURED)
		if root.GetState() != sm.ERROR {
			t.Fatalf("round %d setup: root %s", round, root.GetState())
		}
		var wg sync.WaitGroup
		wg.Add(2)
		go func() { defer wg.Done(); a.UpdateState(sm.CONFIGURED) }()
		go func() { defer wg.Done(); b.UpdateState(sm.RUNNING) }()
		wg.Wait()
		want := c11Expected(a, b) // MIXED
		if root.GetState() != want || q.GetState() != want {
			t.Fatalf("round %d: a=%s b=%s, fold %s, but q reports %s and root reports %s",
				round, a.GetState(), b.GetState(), want, q.GetState(), root.GetState())
		}
	}
}

var _ = task.ACTIVE
