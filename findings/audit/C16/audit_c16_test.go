package executorcmd

import (
	"context"
	"fmt"
	"io"
	"sort"
	"strings"
	"testing"

	"github.com/AliceO2Group/Control/common/controlmode"
	"github.com/AliceO2Group/Control/executor/executorcmd/transitioner"
	pb "github.com/AliceO2Group/Control/executor/protos"
	"github.com/sirupsen/logrus"
	"google.golang.org/grpc"
	"google.golang.org/grpc/codes"
	"google.golang.org/grpc/status"
)

// ---- fake FairMQ device behind the OCC plugin ------------------------------------------------

type outcome int

const (
	done outcome = iota
	refused
	errstate
	te
)

func (o outcome) String() string { return [...]string{"done", "refused", "errstate", "TE"}[o] }

type mode int

const (
	designModel mode = iota // src mismatch / invalid event => refused in place, by a reply carrying the current state
	realPlugin              // src mismatch => gRPC INVALID_ARGUMENT (occ/plugin/OccFMQCommon.cxx:61), no reply
	permissive              // src state of the request ignored
)

func (m mode) String() string { return [...]string{"designModel", "realPlugin", "permissive"}[m] }

// FairMQ state machine: event -> (valid source states, target)
var fmqTable = map[string]struct {
	from []string
	to   string
}{
	"INIT DEVICE":   {[]string{"IDLE"}, "INITIALIZING DEVICE"},
	"COMPLETE INIT": {[]string{"INITIALIZING DEVICE"}, "INITIALIZED"},
	"BIND":          {[]string{"INITIALIZED"}, "BOUND"},
	"CONNECT":       {[]string{"BOUND"}, "DEVICE READY"},
	"INIT TASK":     {[]string{"DEVICE READY"}, "READY"},
	"RUN":           {[]string{"READY"}, "RUNNING"},
	"STOP":          {[]string{"RUNNING"}, "READY"},
	"RESET TASK":    {[]string{"READY"}, "DEVICE READY"},
	"RESET DEVICE":  {[]string{"INITIALIZED", "BOUND", "DEVICE READY"}, "IDLE"},
	"END":           {[]string{"IDLE", "ERROR"}, "EXITING"},
}

type call struct {
	evt, src, devBefore, devAfter string
	out                           outcome
	noReply                       bool
}

type fakeOcc struct {
	pb.OccClient
	state  string
	mode   mode
	script []outcome
	calls  []call
}

func (f *fakeOcc) Transition(ctx context.Context, in *pb.TransitionRequest, opts ...grpc.CallOption) (*pb.TransitionReply, error) {
	o := done
	if len(f.calls) < len(f.script) {
		o = f.script[len(f.calls)]
	}
	c := call{evt: in.TransitionEvent, src: in.SrcState, devBefore: f.state, out: o}
	defer func() { c.devAfter = f.state; f.calls = append(f.calls, c) }()

	if o == te {
		c.noReply = true
		return nil, status.Error(codes.Unavailable, "transport is closing")
	}
	if f.mode == realPlugin && in.SrcState != f.state {
		c.noReply = true
		return nil, status.Error(codes.InvalidArgument, "transition not possible: state mismatch: source: "+in.SrcState+" current: "+f.state)
	}
	if o == errstate {
		f.state = "ERROR"
		return &pb.TransitionReply{State: "ERROR", TransitionEvent: in.TransitionEvent, Ok: false, Trigger: pb.StateChangeTrigger_DEVICE_ERROR}, nil
	}
	ent := fmqTable[in.TransitionEvent]
	valid := false
	for _, s := range ent.from {
		if s == f.state {
			valid = true
		}
	}
	if f.mode == designModel && in.SrcState != f.state {
		valid = false
	}
	if o == refused || !valid {
		return &pb.TransitionReply{State: f.state, TransitionEvent: in.TransitionEvent, Ok: false, Trigger: pb.StateChangeTrigger_DEVICE_INTENTIONAL}, nil
	}
	f.state = ent.to
	return &pb.TransitionReply{State: f.state, TransitionEvent: in.TransitionEvent, Ok: true, Trigger: pb.StateChangeTrigger_EXECUTOR}, nil
}

func img(f string) string {
	switch f {
	case "IDLE":
		return "STANDBY"
	case "READY":
		return "CONFIGURED"
	case "RUNNING":
		return "RUNNING"
	case "ERROR":
		return "ERROR"
	case "EXITING":
		return "DONE"
	}
	return ""
}

func fmqOf(s string) string {
	for _, f := range []string{"IDLE", "READY", "RUNNING", "ERROR", "EXITING"} {
		if img(f) == s {
			return f
		}
	}
	return ""
}

func newClient(f *fakeOcc) *RpcClient {
	l := logrus.New()
	l.SetOutput(io.Discard)
	c := &RpcClient{OccClient: f, Log: logrus.NewEntry(l)}
	c.Transitioner = transitioner.NewTransitioner(controlmode.FAIRMQ, c.doTransition)
	return c
}

type tr struct{ evt, src, dst string }

var walk = []tr{
	{"CONFIGURE", "STANDBY", "CONFIGURED"},
	{"RESET", "CONFIGURED", "STANDBY"},
	{"START", "CONFIGURED", "RUNNING"},
	{"STOP", "RUNNING", "CONFIGURED"},
	{"EXIT", "STANDBY", "DONE"},
	{"EXIT", "CONFIGURED", "DONE"},
	{"EXIT", "ERROR", "DONE"},
}

func trace(cs []call) string {
	var b strings.Builder
	for i, c := range cs {
		if i > 0 {
			b.WriteString(" ; ")
		}
		r := c.devAfter
		if c.noReply {
			r = "<no reply>"
		}
		fmt.Fprintf(&b, "%s(src=%s) dev %s->%s reply=%s", c.evt, c.src, c.devBefore, c.devAfter, r)
	}
	return b.String()
}

// enumerate all outcome scripts exhaustively (script extended while the code keeps issuing calls)
func enumerate(m mode, t tr, visit func(f *fakeOcc, fin string, err error)) {
	var rec func(script []outcome)
	rec = func(script []outcome) {
		f := &fakeOcc{state: fmqOf(t.src), mode: m, script: script}
		c := newClient(f)
		fin, err := c.Transitioner.Commit(t.evt, t.src, t.dst, map[string]string{"k": "v"})
		if len(f.calls) > len(script) { // more calls than scripted: branch on the next call's outcome
			for _, o := range []outcome{done, refused, errstate, te} {
				rec(append(append([]outcome{}, script...), o))
			}
			return
		}
		visit(f, fin, err)
	}
	rec(nil)
}

type viol struct {
	kind, detail string
}

func check(t *testing.T, m mode, allowTE bool) map[string][]string {
	res := map[string][]string{}
	for _, w := range walk {
		enumerate(m, w, func(f *fakeOcc, fin string, err error) {
			anyTE := false
			for _, o := range f.script {
				if o == te {
					anyTE = true
				}
			}
			if anyTE && !allowTE {
				return
			}
			key := fmt.Sprintf("%s from %s", w.evt, w.src)
			line := fmt.Sprintf("[%v] reported=%q err=%v real=%q(img %q) :: %s", f.script, fin, err != nil, f.state, img(f.state), trace(f.calls))
			if fin != img(f.state) {
				res["A reported!=img(real) "+key] = append(res["A reported!=img(real) "+key], line)
			}
			if err == nil && f.state != fmqOf(w.dst) {
				res["B success-not-at-dst "+key] = append(res["B success-not-at-dst "+key], line)
			}
			if err != nil && f.state == fmqOf(w.dst) {
				res["C error-but-at-dst "+key] = append(res["C error-but-at-dst "+key], line)
			}
			// rollback: not completed, not in source, not ERROR: was a rollback requested from the final state and not accepted?
			if f.state != fmqOf(w.dst) && f.state != fmqOf(w.src) && f.state != "ERROR" {
				tried := false
				for _, c := range f.calls {
					if c.devBefore == f.state && c.devAfter == f.state && c.src == f.state &&
						((w.evt == "CONFIGURE" && c.evt == "RESET DEVICE") || (w.evt != "CONFIGURE" && c.evt == "INIT TASK")) {
						tried = true
					}
				}
				if !tried {
					res["D left-midway-no-rollback-tried "+key] = append(res["D left-midway-no-rollback-tried "+key], line)
				}
			}
			// all steps done by a healthy device and yet failure
			allDone := true
			for _, o := range f.script {
				if o != done {
					allDone = false
				}
			}
			if allDone && (err != nil || fin != w.dst) {
				res["E healthy-device-fails "+key] = append(res["E healthy-device-fails "+key], line)
			}
		})
	}
	return res
}

func dump(t *testing.T, res map[string][]string) {
	keys := make([]string, 0, len(res))
	for k := range res {
		keys = append(keys, k)
	}
	sort.Strings(keys)
	for _, k := range keys {
		t.Logf("== %s : %d runs", k, len(res[k]))
		for i, l := range res[k] {
			if i >= 3 {
				break
			}
			t.Logf("     %s", l)
		}
	}
}

func TestSurvey(t *testing.T) {
	for _, m := range []mode{designModel, realPlugin, permissive} {
		for _, allowTE := range []bool{false, true} {
			t.Logf("######## mode=%v allowTE=%v", m, allowTE)
			dump(t, check(t, m, allowTE))
		}
	}
}

// ---- focused failing tests -----------------------------------------------------------------------

func run(m mode, w tr, script ...outcome) (*fakeOcc, string, error) {
	f := &fakeOcc{state: fmqOf(w.src), mode: m, script: script}
	fin, err := newClient(f).Transitioner.Commit(w.evt, w.src, w.dst, nil)
	return f, fin, err
}

// F1: EXIT from CONFIGURED against a device that performs every step it is asked for.
func TestF1_ExitFromConfigured_HealthyDevice(t *testing.T) {
	for _, m := range []mode{designModel, realPlugin} {
		f, fin, err := run(m, tr{"EXIT", "CONFIGURED", "DONE"})
		t.Logf("%v: %s", m, trace(f.calls))
		if err != nil || fin != "DONE" || f.state != "EXITING" {
			t.Errorf("%v: healthy device: reported=%q err=%v, device really in %q (image %q); source was READY, destination EXITING", m, fin, err, f.state, img(f.state))
		}
	}
}

// F2: CONFIGURE, CONNECT refused in BOUND, RESET DEVICE rollback accepted: device is in IDLE, must report STANDBY.
func TestF2_ConfigureRollbackAccepted_ThenSuperfluousStep(t *testing.T) {
	f, fin, err := run(realPlugin, tr{"CONFIGURE", "STANDBY", "CONFIGURED"}, done, done, done, refused, done)
	t.Logf("realPlugin: %s", trace(f.calls))
	if fin != img(f.state) {
		t.Errorf("realPlugin: reported=%q err=%v but device is in %q (image %q)", fin, err, f.state, img(f.state))
	}
	f, fin, err = run(designModel, tr{"CONFIGURE", "STANDBY", "CONFIGURED"}, done, done, refused, done, te)
	t.Logf("designModel: %s", trace(f.calls))
	if fin != img(f.state) {
		t.Errorf("designModel: reported=%q err=%v but device is in %q (image %q) - the rollback reply already said IDLE", fin, err, f.state, img(f.state))
	}
}

// F3: transport error: the reported state is "" and an intermediate state is left without a rollback attempt.
func TestF3_TransportError(t *testing.T) {
	f, fin, err := run(designModel, tr{"START", "CONFIGURED", "RUNNING"}, te)
	if fin != img(f.state) {
		t.Errorf("START, RUN without reply: reported=%q err=%v, device in %q (image %q)", fin, err, f.state, img(f.state))
	}
	f, fin, err = run(designModel, tr{"CONFIGURE", "STANDBY", "CONFIGURED"}, done, done, te)
	rb := false
	for _, c := range f.calls {
		if c.evt == "RESET DEVICE" {
			rb = true
		}
	}
	if f.state != "IDLE" && !rb {
		t.Errorf("CONFIGURE, BIND without reply: device left in %q, reported=%q, no RESET DEVICE rollback was ever requested (%s)", f.state, fin, trace(f.calls))
	}
	f, fin, err = run(designModel, tr{"RESET", "CONFIGURED", "STANDBY"}, done, te)
	rb = false
	for _, c := range f.calls {
		if c.evt == "INIT TASK" {
			rb = true
		}
	}
	if f.state != "READY" && f.state != "IDLE" && !rb {
		t.Errorf("RESET, RESET DEVICE without reply: device left in %q, reported=%q, no INIT TASK rollback was ever requested (%s)", f.state, fin, trace(f.calls))
	}
}
