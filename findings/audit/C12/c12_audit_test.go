package controlcommands

import (
	"sync"
	"sync/atomic"
	"testing"
	"time"

	"github.com/AliceO2Group/Control/common/utils/uid"
	mesos "github.com/mesos/mesos-go/api/v1/lib"
)

func tgt(n string) MesosCommandTarget {
	return MesosCommandTarget{
		AgentId:    mesos.AgentID{Value: "agent-" + n},
		ExecutorId: mesos.ExecutorID{Value: "exec-" + n},
		TaskId:     mesos.TaskID{Value: "task-" + n},
	}
}

// ---------------------------------------------------------------------------------------------------------
// F1: a reply that arrives after the response timer fired but before RunCommand removed the pending entry
// (mesoscommandservent.go:146-157) is taken out of the map by ProcessResponse, which then blocks for ever on
// the unbuffered call.Done (line 196): nobody receives any more. The goroutine (scheduler.go:385/409) and the
// response are leaked, one per occurrence; the reply is consumed and lost, the command reports "timed out".

// lateCmd is a real single-target command; its GetEnvironmentId (called by RunCommand for its log lines, also
// between the timeout and the delete) lets the test place the arrival of the reply exactly in that window.
type lateCmd struct {
	*MesosCommandBase
	armed   atomic.Bool
	sentAt  time.Time
	once    sync.Once
	arrival func()
}

func (c *lateCmd) GetEnvironmentId() uid.ID {
	if c.armed.Load() && time.Since(c.sentAt) >= c.ResponseTimeout {
		c.once.Do(c.arrival)
	}
	return c.MesosCommandBase.GetEnvironmentId()
}

func TestAuditC12_LateReplyInTimeoutWindowHangsProcessResponse(t *testing.T) {
	a := tgt("a")
	base := NewMesosCommand("X", uid.New(), []MesosCommandTarget{a}, nil)
	base.ResponseTimeout = 100 * time.Millisecond
	cmd := &lateCmd{MesosCommandBase: base.MakeSingleTarget(a).(*MesosCommandBase)}

	var s *Servent
	processed := make(chan struct{})
	reply := NewMesosCommandResponse(base, nil) // the target's reply to this command (same command id)
	cmd.arrival = func() {
		go func() {
			s.ProcessResponse(reply, a)
			close(processed)
		}()
		time.Sleep(50 * time.Millisecond) // the reply is being processed while RunCommand is on its way to the delete
	}
	s = NewServent(func(command MesosCommand, receiver MesosCommandTarget) error {
		cmd.sentAt = time.Now()
		cmd.armed.Store(true)
		return nil
	})

	resp, err := s.RunCommand(cmd, a)
	t.Logf("RunCommand returned resp=%v err=%v", resp, err)
	select {
	case <-processed:
	case <-time.After(2 * time.Second):
		t.Fatalf("ProcessResponse of the late reply never returned (blocked on call.Done): goroutine and reply leaked; RunCommand said: %v", err)
	}
}

// ---------------------------------------------------------------------------------------------------------
// F2: one queue, one command at a time (commandqueue.go:88-108, commit under m.Lock): a command whose own target
// answers at once is completed only after the response timeout of an unrelated command in front of it.
func TestAuditC12_SilentTargetOfOtherCommandDelaysCommandBeyondItsTimeout(t *testing.T) {
	silent, quick := tgt("silent"), tgt("quick")
	var s *Servent
	s = NewServent(func(command MesosCommand, receiver MesosCommandTarget) error {
		if receiver == quick {
			go func() {
				time.Sleep(5 * time.Millisecond)
				s.ProcessResponse(NewMesosCommandResponse(command, nil), receiver)
			}()
		}
		return nil
	})
	q := NewCommandQueue(s)
	q.Start()
	defer q.Stop()

	cmdA := NewMesosCommand("A", uid.New(), []MesosCommandTarget{silent}, nil) // environment 1
	cmdA.ResponseTimeout = 1500 * time.Millisecond
	cmdB := NewMesosCommand("B", uid.New(), []MesosCommandTarget{quick}, nil) // environment 2
	cmdB.ResponseTimeout = 200 * time.Millisecond

	na, nb := make(chan MesosCommandResponse, 1), make(chan MesosCommandResponse, 1)
	if err := q.Enqueue(cmdA, na); err != nil {
		t.Fatal(err)
	}
	start := time.Now()
	if err := q.Enqueue(cmdB, nb); err != nil {
		t.Fatal(err)
	}
	<-nb
	took := time.Since(start)
	if took > cmdB.ResponseTimeout+100*time.Millisecond {
		t.Fatalf("command B (response timeout %v, target answers after 5ms) completed after %v: it waited for the timeout of command A", cmdB.ResponseTimeout, took)
	}
}

// ---------------------------------------------------------------------------------------------------------
// F3: the same target twice in one command: both per-target calls are registered under the same (id, target) key
// (mesoscommandservent.go:99), the second overwrites the first; one of the two replies finds nothing, one call waits
// for the whole timeout and its timeout error is filed for the target, although the target answered every message.
func TestAuditC12_SameTargetTwice(t *testing.T) {
	a := tgt("a")
	var s *Servent
	var sends int32
	s = NewServent(func(command MesosCommand, receiver MesosCommandTarget) error {
		atomic.AddInt32(&sends, 1)
		go func() {
			time.Sleep(30 * time.Millisecond)
			s.ProcessResponse(NewMesosCommandResponse(command, nil), receiver)
		}()
		return nil
	})
	q := NewCommandQueue(s)
	q.Start()
	defer q.Stop()
	cmd := NewMesosCommand("A", uid.New(), []MesosCommandTarget{a, a}, nil)
	cmd.ResponseTimeout = 500 * time.Millisecond
	n := make(chan MesosCommandResponse, 1)
	start := time.Now()
	_ = q.Enqueue(cmd, n)
	r := <-n
	took := time.Since(start)
	if took >= cmd.ResponseTimeout || (r != nil && r.Err() != nil && r.Err().Error() != "") {
		t.Fatalf("target answered each of the %d messages after 30ms, yet the command took %v and reports: %v", sends, took, r.Err())
	}
}

// F1 without any hook: replies that arrive around the moment the timer fires; counts ProcessResponse calls that never return.
func TestAuditC12_ReplyAtTimeoutStress(t *testing.T) {
	a := tgt("a")
	var s *Servent
	var started, finished int32
	s = NewServent(func(command MesosCommand, receiver MesosCommandTarget) error {
		reply := NewMesosCommandResponse(command, nil)
		time.AfterFunc(command.GetResponseTimeout(), func() {
			atomic.AddInt32(&started, 1)
			s.ProcessResponse(reply, receiver)
			atomic.AddInt32(&finished, 1)
		})
		return nil
	})
	var wg sync.WaitGroup
	for i := 0; i < 400; i++ {
		wg.Add(1)
		go func() {
			defer wg.Done()
			c := NewMesosCommand("X", uid.New(), []MesosCommandTarget{a}, nil)
			c.ResponseTimeout = 20 * time.Millisecond
			_, _ = s.RunCommand(c.MakeSingleTarget(a), a)
		}()
	}
	wg.Wait()
	time.Sleep(500 * time.Millisecond)
	if st, fi := atomic.LoadInt32(&started), atomic.LoadInt32(&finished); st != fi {
		t.Fatalf("%d of %d ProcessResponse calls never returned", st-fi, st)
	}
}
