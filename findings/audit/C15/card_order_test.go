package workflow

// C15 audit: "loading the same workflow template with the same variables always yields the same role tree - same roles, order".
// inventory.CRUCardsForHost (the usual range of a per-card iterator) answers the serials in Go map iteration order
// (apricot/local/service.go GetCRUCardsForHost ranges over map[string]Card), so the children of the iterator come out in
// a different order from one load to the next, with identical template, variables and configuration store.
// Second scenario: a failing inventory lookup is turned into the range ["error: ..."] and the load succeeds with a bogus child.

import (
	"strings"
	"testing"

	"github.com/AliceO2Group/Control/core/repos"
	"github.com/spf13/viper"
	"gopkg.in/yaml.v3"
)

const c15Cards = `
name: root
roles:
  - name: "card-{{ serial }}"
    for:
      range: "{{ inventory.CRUCardsForHost('%HOST%') }}"
      var: serial
    task:
      load: roc-config
`

func c15loadCards(t *testing.T, host string) (string, error) {
	viper.Set("config_endpoint", "file:///tmp/audit-C15/findings/inventory.yaml")
	_, repo, _ := repos.NewRepo("/home/user/git/ControlWorkflows", "", "/var/lib/o2/aliecs/repos")
	root := new(aggregatorRole)
	if err := yaml.Unmarshal([]byte(strings.ReplaceAll(c15Cards, "%HOST%", host)), root); err != nil {
		t.Fatalf("unmarshal: %v", err)
	}
	err := root.ProcessTemplates(&repo, nil, map[string]string{})
	var names []string
	Walk(root, func(r Role) {
		if _, isIter := r.(*iteratorRole); !isIter {
			names = append(names, r.GetPath())
		}
	})
	return strings.Join(names, " "), err
}

func TestC15CardOrder(t *testing.T) {
	first, err := c15loadCards(t, "flp001")
	if err != nil {
		t.Fatalf("load: %v", err)
	}
	t.Logf("first load: %s", first)
	for n := 0; n < 50; n++ {
		again, err := c15loadCards(t, "flp001")
		if err != nil {
			t.Fatalf("load: %v", err)
		}
		if again != first {
			t.Fatalf("load %d of the same template differs:\n first: %s\n now:   %s", n+2, first, again)
		}
	}
}

func TestC15InventoryErrorBecomesRole(t *testing.T) {
	got, err := c15loadCards(t, "no-such-host")
	if err == nil {
		t.Fatalf("inventory lookup failed, load succeeded with tree: %s", got)
	}
}
