package workflow

// C15 audit: "aggregators left empty disappear".
// An aggregator whose only child is an iterator that ends up with no generated roles (empty range, or every generated
// role pruned) is NOT pruned: iteratorRole.IsEnabled() answers true off the raw template (default enabled "true"), so the
// parent's filter keeps the empty iterator, len(r.Roles) == 1, and the aggregator never disables itself.

import (
	"strings"
	"testing"

	"github.com/AliceO2Group/Control/core/repos"
	"github.com/AliceO2Group/Control/core/task/sm"
	"github.com/spf13/viper"
	"gopkg.in/yaml.v3"
)

const c15EmptyRange = `
name: root
defaults:
  hosts: '[]'
roles:
  - name: "readout"
    roles:
      - name: "host-{{ it }}"
        for:
          range: "{{ hosts }}"
          var: it
        task:
          load: readout
  - name: "monitor"
    task:
      load: monitor
`

// every generated aggregator empties out (its only task is disabled) -> the iterator is left without roles
const c15AllPruned = `
name: root
defaults:
  hosts: '["h1","h2"]'
  qc_enabled: "false"
roles:
  - name: "flps"
    roles:
      - name: "host-{{ it }}"
        for:
          range: "{{ hosts }}"
          var: it
        roles:
          - name: "qc"
            enabled: "{{ qc_enabled }}"
            task:
              load: qc
  - name: "monitor"
    task:
      load: monitor
`

func c15load(t *testing.T, doc string) (*aggregatorRole, string) {
	viper.Set("config_endpoint", "mock://")
	_, repo, _ := repos.NewRepo("/home/user/git/ControlWorkflows", "", "/var/lib/o2/aliecs/repos")
	root := new(aggregatorRole)
	if err := yaml.Unmarshal([]byte(doc), root); err != nil {
		t.Fatalf("unmarshal: %v", err)
	}
	if err := root.ProcessTemplates(&repo, nil, map[string]string{}); err != nil {
		t.Fatalf("load: %v", err)
	}
	var names []string
	Walk(root, func(r Role) {
		if _, isIter := r.(*iteratorRole); !isIter {
			names = append(names, r.GetPath())
		}
	})
	return root, strings.Join(names, " ")
}

func TestC15EmptyIteratorKeepsAggregator(t *testing.T) {
	for _, conc := range []bool{false, true} {
		viper.Set("concurrentWorkflowTemplateProcessing", conc)
		viper.Set("concurrentWorkflowTemplateIteratorProcessing", conc)
		viper.Set("concurrentIteratorRoleExpansion", conc)
		for name, doc := range map[string]string{"empty range": c15EmptyRange, "all generated roles pruned": c15AllPruned} {
			root, got := c15load(t, doc)
			if want := "root root.monitor"; got != want {
				t.Errorf("%s (concurrent=%v):\n got:  %s\n want: %s", name, conc, got, want)
			}
			// consequence: the childless aggregator sits in STANDBY for ever and drags the root to MIXED
			for _, r := range root.GetRoles() {
				if tr, ok := r.(*taskRole); ok {
					tr.updateState(sm.CONFIGURED)
				}
			}
			if st := root.GetState(); st != sm.CONFIGURED {
				t.Errorf("%s (concurrent=%v): all tasks CONFIGURED, root reports %s", name, conc, st)
			}
		}
	}
}
