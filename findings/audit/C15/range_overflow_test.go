package workflow

// C15 audit: "an iterator yields exactly one child per element of its range".
// iteratorRangeFor.GetRange: `for j := begin; j <= end; j++` never ends when end == math.MaxInt (j wraps to MinInt):
// begin = end = 9223372036854775807 should give ONE element, the loop appends until the core runs out of memory.

import (
	"testing"
	"time"

	"github.com/spf13/viper"
)

func TestC15RangeEndMaxInt(t *testing.T) {
	viper.Set("config_endpoint", "mock://")
	f := &iteratorRangeFor{Begin: "9223372036854775807", End: "9223372036854775807", Var: "it"}
	done := make(chan []string, 1)
	go func() {
		ran, _ := f.GetRange(map[string]string{})
		done <- ran
	}()
	select {
	case ran := <-done:
		if len(ran) != 1 {
			t.Fatalf("got %d elements, want 1", len(ran))
		}
	case <-time.After(300 * time.Millisecond):
		t.Fatalf("GetRange(begin=end=MaxInt64) still running after 300ms (unbounded loop, memory grows)")
	}
}
