package task

import (
	"testing"

	"github.com/AliceO2Group/Control/common"
	"github.com/AliceO2Group/Control/common/controlmode"
	"github.com/AliceO2Group/Control/common/gera"
	"github.com/AliceO2Group/Control/common/utils/uid"
	"github.com/AliceO2Group/Control/core/task/channel"
	"github.com/AliceO2Group/Control/core/task/taskclass"
	"github.com/spf13/viper"
)

type c14aParent struct {
	parentRole
	stack map[string]string
}

func (p *c14aParent) ConsolidatedVarStack() (map[string]string, error) {
	out := map[string]string{}
	for k, v := range p.stack {
		out[k] = v
	}
	return out, nil
}
func (p *c14aParent) GetEnvironmentId() uid.ID                    { return uid.New() }
func (p *c14aParent) GetPath() string                             { return "root.task" }
func (p *c14aParent) GetTaskTraits() Traits                       { return Traits{} }
func (p *c14aParent) CollectInboundChannels() []channel.Inbound   { return nil }
func (p *c14aParent) CollectOutboundChannels() []channel.Outbound { return nil }

// A task class default that refers to a workflow variable: the command line gets the resolved value, the property map
// of the same task gets the unresolved template text.
func TestC14ClassDefaultReferenceInProperties(t *testing.T) {
	viper.Set("config_endpoint", "mock://")
	val := "{{ lvl }}"
	cls := &taskclass.Class{
		Defaults: gera.MakeMapWithMap(map[string]string{"lvl": "{{ base }}"}),
		Vars:     gera.MakeMap[string, string](),
		Command:  &common.CommandInfo{Value: &val},
	}
	cls.Control.Mode = controlmode.DIRECT
	parent := &c14aParent{stack: map[string]string{"base": "info"}}
	tk := &Task{name: "t", parent: parent, GetTaskClass: func() *taskclass.Class { return cls },
		properties: gera.MakeMapWithMap(map[string]string{"severity": "{{ lvl }}"})}
	if err := tk.BuildTaskCommand(parent); err != nil {
		t.Fatalf("BuildTaskCommand: %v", err)
	}
	pm, err := tk.BuildPropertyMap(nil)
	if err != nil {
		t.Fatalf("BuildPropertyMap: %v", err)
	}
	if cmd := *tk.commandInfo.Value; cmd != "info" || pm["severity"] != "info" {
		t.Fatalf("lvl as seen by the command: %q, by the properties: %q; want info in both", cmd, pm["severity"])
	}
}
