package task

// C04 audit: "Every deployed task is owned by at most one environment at a time".
// acquireTasks (run in its own goroutine per request, manager.go:1235) decides which idle task to re-use at the very
// beginning (IsClaimable, manager.go:419/434) but takes ownership only at the very end (SetParent, manager.go:652-654),
// after the whole deployment of the remaining descriptors; the claim is not re-checked and nothing is held in between
// (deployMu covers 501-626 only). Two environments being created at the same time both claim the same idle task and
// both get it: both roles hold the task, its parent link says whoever wrote last.

import (
	"sync"
	"testing"
	"time"

	"github.com/AliceO2Group/Control/common/utils/uid"
	"github.com/AliceO2Group/Control/core/task/sm"
	"github.com/AliceO2Group/Control/core/task/taskclass"
	mesos "github.com/mesos/mesos-go/api/v1/lib"
	"github.com/spf13/viper"
)

type c04dcRole struct {
	parentRole
	env  uid.ID
	path string
	mu   sync.Mutex
	task *Task
}

func (r *c04dcRole) GetEnvironmentId() uid.ID { return r.env }
func (r *c04dcRole) GetPath() string          { return r.path }
func (r *c04dcRole) GetTaskTraits() Traits    { return Traits{Critical: true} }
func (r *c04dcRole) UpdateStatus(Status)      {}
func (r *c04dcRole) UpdateState(sm.State)     {}
func (r *c04dcRole) SetTask(t *Task)          { r.mu.Lock(); r.task = t; r.mu.Unlock() }
func (r *c04dcRole) got() *Task               { r.mu.Lock(); defer r.mu.Unlock(); return r.task }

func TestC04IdleTaskClaimedByTwoEnvironments(t *testing.T) {
	viper.Set("reuseUnlockedTasks", true)
	defer viper.Set("reuseUnlockedTasks", false)

	toDeploy := make(chan *ResourceOffersDeploymentRequest, 4)
	trg := make(chan struct{})
	m := &Manager{roster: newRoster(), classes: taskclass.NewClasses(), tasksToDeploy: toDeploy, reviveOffersTrg: trg}
	m.classes.UpdateClass("cls", &taskclass.Class{})
	m.classes.UpdateClass("other", &taskclass.Class{})
	m.AgentCache.Update(AgentCacheInfo{AgentId: mesos.AgentID{Value: "a"}, Hostname: "h"})

	noClass := func() *taskclass.Class { return nil }
	idle := &Task{hostname: "h", agentId: "a", offerId: "o", taskId: "idle", executorId: "e", className: "cls",
		status: ACTIVE, state: sm.STANDBY, GetTaskClass: noClass}
	if !idle.IsClaimable() {
		t.Fatal("setup: the idle task must be claimable")
	}
	m.roster.append(idle)

	envA, envB := uid.New(), uid.New()
	roleA1 := &c04dcRole{env: envA, path: "A.reuse"}
	roleA2 := &c04dcRole{env: envA, path: "A.fresh"}
	roleB := &c04dcRole{env: envB, path: "B.reuse"}
	dA1 := &Descriptor{TaskRole: roleA1, TaskClassName: "cls"}
	dA2 := &Descriptor{TaskRole: roleA2, TaskClassName: "other"} // needs a new task: A goes through a deployment
	dB := &Descriptor{TaskRole: roleB, TaskClassName: "cls"}

	doneA, doneB := make(chan error, 1), make(chan error, 1)
	go func() { doneA <- m.acquireTasks(envA, Descriptors{dA1, dA2}) }()

	// the scheduler's side of A's deployment
	var req *ResourceOffersDeploymentRequest
	select {
	case req = <-toDeploy:
	case <-time.After(10 * time.Second):
		t.Fatal("A never asked for a deployment")
	}
	<-trg // A waits for the offers to be revived ... meanwhile environment B is created
	go func() { doneB <- m.acquireTasks(envB, Descriptors{dB}) }()
	time.Sleep(500 * time.Millisecond) // B has matched its descriptor and waits for the deployment lock
	trg <- struct{}{}
	fresh := &Task{hostname: "h", agentId: "a", offerId: "o2", taskId: "fresh", executorId: "e", className: "other",
		status: ACTIVE, state: sm.STANDBY, GetTaskClass: noClass}
	req.outcomeCh <- ResourceOffersOutcome{deployed: DeploymentMap{fresh: dA2}}

	for _, ch := range []chan error{doneA, doneB} {
		select {
		case err := <-ch:
			if err != nil {
				t.Fatalf("acquireTasks failed: %v", err)
			}
		case <-time.After(10 * time.Second):
			t.Fatal("acquireTasks did not return")
		}
	}

	if roleA1.got() == idle && roleB.got() == idle {
		t.Fatalf("both acquisitions succeeded and the same task %q was handed to environment %s (role %s) AND environment %s (role %s); task.GetEnvironmentId() = %s",
			idle.taskId, envA, roleA1.path, envB, roleB.path, idle.GetEnvironmentId())
	}
}
