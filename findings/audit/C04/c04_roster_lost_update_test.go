package task

// C04 audit: "cleanup of unowned tasks never touches owned ones".
// doKillTasks prunes the roster with  m.roster.updateTasks(m.roster.filtered(...))  twice: the snapshot is taken under
// the read lock, the write-back under the write lock, nothing in between. acquireTasks of ANOTHER environment appends
// its freshly locked tasks with m.roster.append concurrently (handleMessage runs it in its own goroutine; Cleanup is
// called from CreateEnvironment / the CleanupTasks RPC, KillTasks from every teardown). An append that lands between
// snapshot and write-back is overwritten: the owned task disappears from the roster although nobody asked to kill it.
// Here Cleanup has NOTHING to kill at all (every task is locked) and still loses owned tasks.

import (
	"fmt"
	"sync"
	"testing"
)

type c04Role struct{ parentRole }

func TestC04CleanupLosesOwnedTasksOfAnotherEnvironment(t *testing.T) {
	m := &Manager{roster: newRoster()}
	const N = 20000
	owned := make(Tasks, N)
	for i := range owned {
		id := fmt.Sprintf("t%d", i)
		owned[i] = &Task{hostname: "h", agentId: "a", offerId: "o", taskId: id, executorId: "e", parent: &c04Role{}, status: ACTIVE}
		if !owned[i].IsLocked() {
			t.Fatal("setup: task must be locked")
		}
	}
	stop := make(chan struct{})
	var wg sync.WaitGroup
	wg.Add(1)
	go func() { // an operator (or another CreateEnvironment) cleaning up unowned tasks: there are none
		defer wg.Done()
		for {
			select {
			case <-stop:
				return
			default:
			}
			killed, _, err := m.Cleanup()
			if err != nil || len(killed) != 0 {
				t.Errorf("cleanup killed %d tasks, err %v", len(killed), err)
				return
			}
		}
	}()
	// environment B's acquireTasks, "Finally, we write to the roster": locked tasks are appended one by one
	for _, tk := range owned {
		m.roster.append(tk)
	}
	close(stop)
	wg.Wait()
	lost := 0
	for _, tk := range owned {
		if m.roster.getByTaskId(tk.taskId) == nil {
			lost++
		}
	}
	if lost > 0 {
		t.Fatalf("%d of %d tasks owned (locked) by an environment vanished from the roster during a cleanup that had nothing to kill", lost, N)
	}
}
