package workflow

import (
	"testing"

	"github.com/AliceO2Group/Control/common/gera"
	"github.com/AliceO2Group/Control/common/utils/uid"
	"github.com/AliceO2Group/Control/core/task/sm"
)

// C07: what integration plugins (bookkeeping, trg, dcs, odc, ccdb, kafka) read as varStack["run_number"] must be the
// number obtained from the counter (environment.go:209 stores it in the root role's Vars), not a user-supplied value.
func TestC07UserVarShadowsRunNumber(t *testing.T) {
	envDefaults := gera.MakeMap[string, string]()
	envVars := gera.MakeMap[string, string]()
	envUserVars := gera.MakeMap[string, string]()
	envUserVars.Set("run_number", "7") // user passes run_number=7 when creating the environment

	root := &aggregatorRole{
		roleBase{Name: "root", state: SafeState{state: sm.CONFIGURED},
			Defaults: gera.MakeMap[string, string](), Vars: gera.MakeMap[string, string](), UserVars: gera.MakeMap[string, string]()},
		aggregator{},
	}
	pa := NewParentAdapter(func() uid.ID { return uid.NilID() }, func() uint32 { return 42 },
		func() gera.Map[string, string] { return envDefaults },
		func() gera.Map[string, string] { return envVars },
		func() gera.Map[string, string] { return envUserVars }, nil)
	root.setParent(pa)

	// what before_START_ACTIVITY does with the number obtained from NewRunNumber (environment.go:209)
	root.GetVars().Set("run_number", "42")

	vs, err := root.ConsolidatedVarStack()
	if err != nil {
		t.Fatal(err)
	}
	if vs["run_number"] != "42" {
		t.Fatalf("hooks/plugins see run_number=%q instead of the allocated 42", vs["run_number"])
	}
}
