package local

import (
	"os"
	"path/filepath"
	"sync"
	"testing"

	"github.com/spf13/viper"
)

// C07: file backend, counter at uint32 max: NewRunNumber must fail, not hand out 0 / restart the sequence.
func TestC07FileBackendWrap(t *testing.T) {
	dir := t.TempDir()
	viper.Set("coreWorkingDir", dir)
	rnf := filepath.Join(dir, "runcounter.txt")
	if err := os.WriteFile(rnf, []byte("4294967294"), 0644); err != nil {
		t.Fatal(err)
	}
	s := &Service{}
	prev, err := s.NewRunNumber()
	if err != nil || prev != 4294967295 {
		t.Fatalf("setup: %d %v", prev, err)
	}
	rn, err := s.NewRunNumber()
	if err == nil && rn <= prev {
		raw, _ := os.ReadFile(rnf)
		t.Fatalf("run number %d handed out after %d with nil error; counter file now %q", rn, prev, raw)
	}
}

// C07: several starts racing on the file backend must never receive the same number with a nil error.
func TestC07FileBackendRace(t *testing.T) {
	dir := t.TempDir()
	viper.Set("coreWorkingDir", dir)
	s := &Service{}
	if _, err := s.NewRunNumber(); err != nil {
		t.Fatal(err)
	}
	const N = 64
	var wg sync.WaitGroup
	var mu sync.Mutex
	seen := map[uint32]int{}
	for round := 0; round < 50; round++ {
		start := make(chan struct{})
		for i := 0; i < N; i++ {
			wg.Add(1)
			go func() {
				defer wg.Done()
				<-start
				rn, err := s.NewRunNumber()
				if err == nil {
					mu.Lock()
					seen[rn]++
					mu.Unlock()
				}
			}()
		}
		close(start)
		wg.Wait()
	}
	for rn, n := range seen {
		if n > 1 {
			t.Errorf("run number %d handed out %d times with nil error", rn, n)
		}
	}
}
