package event

import (
	"fmt"
	"runtime"
	"sync"
	"sync/atomic"
	"testing"
	"time"

	"github.com/AliceO2Group/Control/common/monitoring"
	pb "github.com/AliceO2Group/Control/common/protos"
	"github.com/segmentio/kafka-go"
)

func auditNewWriter(write func([]kafka.Message, *monitoring.Metric)) *KafkaWriter {
	w := &KafkaWriter{}
	w.toBatchMessagesChan = make(chan kafka.Message, 10000)
	w.messageBuffer = NewFifoBuffer[kafka.Message]()
	w.Writer = &kafka.Writer{}
	w.Topic = "audit"
	w.batchingLoopDoneCh = make(chan struct{}, 1)
	w.writeFunction = write
	go w.writingLoop()
	go w.batchingLoop()
	return w
}

// F1: lost wake-up. Close() right after (or without) a publication: the writing loop takes the default branch, the
// batching loop signals done and broadcasts before the writing loop reaches cond.Wait -> nobody wakes it again.
func TestAuditCloseHangs(t *testing.T) {
	runtime.GOMAXPROCS(8)
	deadline := time.Now().Add(90 * time.Second)
	for i := 0; time.Now().Before(deadline); i++ {
		var n int64
		w := auditNewWriter(func(m []kafka.Message, _ *monitoring.Metric) { atomic.AddInt64(&n, int64(len(m))) })
		w.WriteEvent(&pb.Ev_MetaEvent_CoreStart{FrameworkId: "x"})
		// let the single event get through so that the writing loop is on its way back to PopMultiple
		for atomic.LoadInt64(&n) == 0 {
			runtime.Gosched()
		}
		done := make(chan struct{})
		go func() { w.Close(); close(done) }()
		select {
		case <-done:
		case <-time.After(3 * time.Second):
			buf := make([]byte, 1<<16); t.Logf("%s", buf[:runtime.Stack(buf, true)]); t.Fatalf("iteration %d: Close() did not return within 3s (writing loop parked in cond.Wait after the last Broadcast)", i)
		}
	}
}

// F2: a producer publishing while / after shutdown panics (send on closed channel) instead of the event being either
// accepted-and-flushed or refused.
func TestAuditPublishDuringClose(t *testing.T) {
	w := auditNewWriter(func(m []kafka.Message, _ *monitoring.Metric) { time.Sleep(time.Millisecond) })
	var wg sync.WaitGroup
	var panics int64
	stop := make(chan struct{})
	for p := 0; p < 4; p++ {
		wg.Add(1)
		go func() {
			defer wg.Done()
			defer func() {
				if r := recover(); r != nil {
					atomic.AddInt64(&panics, 1)
					t.Logf("producer panicked: %v", r)
				}
			}()
			for {
				select {
				case <-stop:
					return
				default:
					w.WriteEvent(&pb.Ev_EnvironmentEvent{EnvironmentId: "env1"})
				}
			}
		}()
	}
	time.Sleep(20 * time.Millisecond)
	w.Close()
	time.Sleep(20 * time.Millisecond)
	close(stop)
	wg.Wait()
	if panics > 0 {
		t.Fatalf("%d producers panicked publishing around Close()", panics)
	}
}

// F2b: Close twice (e.g. the same writer registered under two topics, or ClearEventWriters called twice)
func TestAuditCloseTwice(t *testing.T) {
	w := auditNewWriter(func(m []kafka.Message, _ *monitoring.Metric) {})
	w.Close()
	defer func() {
		if r := recover(); r != nil {
			t.Fatalf("second Close panicked: %v", r)
		}
	}()
	w.Close()
}

// F3: events about the same environment carry different partition keys
func TestAuditTaskEventKey(t *testing.T) {
	now := time.Now()
	_, kEnv, _ := internalEventToKafkaEvent(&pb.Ev_EnvironmentEvent{EnvironmentId: "env1"}, now)
	_, kT1, _ := internalEventToKafkaEvent(&pb.Ev_TaskEvent{EnvironmentId: "env1", Taskid: "task-1"}, now)
	_, kT2, _ := internalEventToKafkaEvent(&pb.Ev_TaskEvent{EnvironmentId: "env1", Taskid: "task-2"}, now)
	if string(kEnv) != string(kT1) || string(kT1) != string(kT2) {
		t.Fatalf("same environment env1, keys: environment event %q, task event 1 %q, task event 2 %q", kEnv, kT1, kT2)
	}
}

// F4: exactly once / order under concurrency + slow broker + shutdown (sanity: expected to pass)
func TestAuditOrderOnce(t *testing.T) {
	var mu sync.Mutex
	var got []string
	w := auditNewWriter(func(m []kafka.Message, _ *monitoring.Metric) {
		if len(m) > 100 {
			t.Errorf("batch of %d", len(m))
		}
		time.Sleep(2 * time.Millisecond)
		mu.Lock()
		for _, x := range m {
			got = append(got, string(x.Key))
		}
		mu.Unlock()
	})
	const P, N = 8, 500
	var wg sync.WaitGroup
	for p := 0; p < P; p++ {
		wg.Add(1)
		go func(p int) {
			defer wg.Done()
			for i := 0; i < N; i++ {
				w.WriteEvent(&pb.Ev_EnvironmentEvent{EnvironmentId: fmt.Sprintf("%d/%d", p, i)})
			}
		}(p)
	}
	wg.Wait()
	w.Close()
	if len(got) != P*N {
		t.Fatalf("got %d of %d", len(got), P*N)
	}
	next := make([]int, P)
	for _, k := range got {
		var p, i int
		fmt.Sscanf(k, "%d/%d", &p, &i)
		if i != next[p] {
			t.Fatalf("producer %d: expected %d got %d", p, next[p], i)
		}
		next[p]++
	}
}
