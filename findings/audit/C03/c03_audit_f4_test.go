package environment

// F4: ParentAdapter.updateState offers the new workflow state to the watcher with a NON-blocking send on an unbuffered
// channel (parentadapter.go:102-111; channel made at environment.go:1181). While the watcher goroutine is on its way
// back to its select after taking one notification, the next one is dropped. Two messages queued back to back in the
// task manager (state report of critical task A, TASK_FAILED of critical task B) are handled by the real
// Manager.handleMessage, which spawns one goroutine per update: if the ERROR is the later of the two it can be lost,
// and nothing re-sends it in an idle environment.

import (
	"testing"
	"time"

	"github.com/AliceO2Group/Control/core/task"
	"github.com/AliceO2Group/Control/core/task/sm"
	mesos "github.com/mesos/mesos-go/api/v1/lib"
)

func TestC03Audit_F4_ErrorNotificationDropped(t *testing.T) {
	const trials = 400
	rigs := make([]*c03rig, trials)
	for i := range rigs {
		rigs[i] = c03setup(t, "RUNNING", sm.RUNNING, false)
		rigs[i].env.subscribeToWfState(rigs[i].tm)
	}
	time.Sleep(500 * time.Millisecond) // all watchers subscribed and waiting
	for _, r := range rigs {
		st := mesos.TASK_FAILED
		m1 := task.NewTaskStateMessage(r.crit.GetTaskId(), "RUNNING")
		m2 := task.NewTaskStatusMessage(mesos.TaskStatus{TaskID: mesos.TaskID{Value: r.crit2.GetTaskId()}, State: &st})
		// the body of the loop in Manager.Start, for two messages waiting in MessageChannel
		_ = r.tm.AuditHandleMessage(m1)
		_ = r.tm.AuditHandleMessage(m2)
		time.Sleep(2 * time.Millisecond)
	}
	time.Sleep(4 * time.Second)
	lost := 0
	for _, r := range rigs {
		if r.env.CurrentState() != "ERROR" {
			lost++
			if lost <= 3 {
				t.Logf("environment %s, workflow %s, dead critical task state %s", r.env.CurrentState(), r.env.workflow.GetState(), r.crit2.AuditState())
			}
		}
	}
	if lost > 0 {
		t.Errorf("%d of %d environments: critical task reported TASK_FAILED (task ERROR, workflow ERROR), environment still RUNNING 4 s later", lost, trials)
	}
}
