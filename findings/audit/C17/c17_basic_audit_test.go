package executable

import (
	"encoding/json"
	"fmt"
	"os/exec"
	"strings"
	"sync"
	"syscall"
	"testing"
	"time"

	"github.com/AliceO2Group/Control/common"
	"github.com/AliceO2Group/Control/common/controlmode"
	"github.com/AliceO2Group/Control/common/event"
	"github.com/AliceO2Group/Control/common/utils/uid"
	"github.com/AliceO2Group/Control/executor/executorcmd/transitioner"
	mesos "github.com/mesos/mesos-go/api/v1/lib"
)

type auditRec struct {
	mu       sync.Mutex
	statuses []mesos.TaskState
	finals   []mesos.TaskState
}

func (r *auditRec) status(_ uid.ID, s mesos.TaskState, _ string) {
	r.mu.Lock()
	r.statuses = append(r.statuses, s)
	r.mu.Unlock()
}
func (r *auditRec) devEvent(_ uid.ID, e event.DeviceEvent) {
	if btt, ok := e.(*event.BasicTaskTerminated); ok {
		r.mu.Lock()
		r.finals = append(r.finals, btt.FinalMesosState)
		r.mu.Unlock()
	}
}
func (r *auditRec) snapshot() ([]mesos.TaskState, []mesos.TaskState) {
	r.mu.Lock()
	defer r.mu.Unlock()
	return append([]mesos.TaskState{}, r.statuses...), append([]mesos.TaskState{}, r.finals...)
}

func auditNewTask(t *testing.T, mode controlmode.ControlMode, shellCmd string, rec *auditRec) Task {
	sh := true
	tci := common.TaskCommandInfo{ControlMode: mode}
	tci.Shell = &sh
	tci.Value = &shellCmd
	data, err := json.Marshal(&tci)
	if err != nil {
		t.Fatal(err)
	}
	ti := mesos.TaskInfo{Name: "audit", TaskID: mesos.TaskID{Value: "audit-task"}, Data: data,
		Executor: &mesos.ExecutorInfo{ExecutorID: mesos.ExecutorID{Value: "x"}}}
	task := NewTask(ti, rec.status, rec.devEvent, func([]byte) {})
	if task == nil {
		t.Fatal("NewTask returned nil")
	}
	return task
}

func markerAlive(marker string) bool {
	out, _ := exec.Command("pgrep", "-f", marker).Output()
	return strings.TrimSpace(string(out)) != ""
}
func markerCleanup(marker string) { _ = exec.Command("pkill", "-9", "-f", marker).Run() }

// A: KILL of a basic task whose child is running: reported FINISHED, child never signalled (survivor).
func TestAuditBasicKillLeavesSurvivor(t *testing.T) {
	marker := fmt.Sprintf("31%d", time.Now().UnixNano()%100000+41000)
	defer markerCleanup("sleep " + marker)
	rec := &auditRec{}
	task := auditNewTask(t, controlmode.BASIC, "exec sleep "+marker, rec)
	bt := task.(*BasicTask)
	if err := bt.Launch(); err != nil {
		t.Fatal(err)
	}
	time.Sleep(400 * time.Millisecond)
	if _, err := bt.transitioner.Commit("START", "CONFIGURED", "RUNNING", nil); err != nil {
		t.Fatal(err)
	}
	time.Sleep(300 * time.Millisecond)
	if !markerAlive("sleep " + marker) {
		t.Fatal("child did not start")
	}
	_ = bt.Kill()
	time.Sleep(2 * time.Second)
	st, _ := rec.snapshot()
	t.Logf("statuses: %v", st)
	if markerAlive("sleep " + marker) {
		t.Fatalf("child of a KILLed basic task is still running after Kill returned and terminal status %v was sent", st)
	}
}

// B: KILL arriving within 200ms of LAUNCH: TASK_FINISHED is followed by TASK_RUNNING (status after the terminal one).
func TestAuditBasicStatusAfterTerminal(t *testing.T) {
	rec := &auditRec{}
	task := auditNewTask(t, controlmode.BASIC, "true", rec)
	bt := task.(*BasicTask)
	if err := bt.Launch(); err != nil {
		t.Fatal(err)
	}
	_ = bt.Kill()
	time.Sleep(600 * time.Millisecond)
	st, _ := rec.snapshot()
	t.Logf("statuses: %v", st)
	seenTerminal := false
	for _, s := range st {
		if seenTerminal {
			t.Fatalf("status %v reported after a terminal status: %v", s, st)
		}
		if s == mesos.TASK_FINISHED || s == mesos.TASK_KILLED || s == mesos.TASK_FAILED {
			seenTerminal = true
		}
	}
}

// C: leader exits after forking a child into the group: STOP signals nobody, the forked child survives.
func TestAuditBasicStopLeavesForkedChildren(t *testing.T) {
	marker := fmt.Sprintf("32%d", time.Now().UnixNano()%100000+41000)
	defer markerCleanup("sleep " + marker)
	rec := &auditRec{}
	task := auditNewTask(t, controlmode.BASIC, "sleep "+marker+" >/dev/null 2>&1 & exit 0", rec)
	bt := task.(*BasicTask)
	_ = bt.Launch()
	if _, err := bt.transitioner.Commit("START", "CONFIGURED", "RUNNING", nil); err != nil {
		t.Fatal(err)
	}
	time.Sleep(500 * time.Millisecond)
	if _, err := bt.transitioner.Commit("STOP", "RUNNING", "CONFIGURED", nil); err != nil {
		t.Fatal(err)
	}
	time.Sleep(500 * time.Millisecond)
	if markerAlive("sleep " + marker) {
		t.Fatalf("forked child still alive in the task's process group after STOP")
	}
}

// D: child dies from a signal (crash); STOP leaves a stale KILLED in the 1-slot channel; the next run that exits 0 on its
// own is reported KILLED, and the next STOP of a running child blocks forever.
func TestAuditBasicStaleKilledThenStopHangs(t *testing.T) {
	marker := fmt.Sprintf("33%d", time.Now().UnixNano()%100000+41000)
	defer markerCleanup("sleep " + marker)
	rec := &auditRec{}
	task := auditNewTask(t, controlmode.BASIC, "if [ -e /tmp/audit-C17/.second ]; then exec sleep "+marker+"; else kill -SEGV $$; fi", rec)
	_ = exec.Command("rm", "-f", "/tmp/audit-C17/.second").Run()
	defer exec.Command("rm", "-f", "/tmp/audit-C17/.second").Run()
	bt := task.(*BasicTask)
	_ = bt.Launch()
	var tr transitioner.Transitioner = bt.transitioner
	if _, err := tr.Commit("START", "CONFIGURED", "RUNNING", nil); err != nil {
		t.Fatal(err)
	}
	time.Sleep(500 * time.Millisecond) // child has crashed and was reaped
	_, fin := rec.snapshot()
	t.Logf("final states after crash: %v", fin)
	if _, err := tr.Commit("STOP", "RUNNING", "CONFIGURED", nil); err != nil {
		t.Logf("first STOP: %v", err)
	}
	// second run
	_ = exec.Command("touch", "/tmp/audit-C17/.second").Run()
	if _, err := tr.Commit("START", "CONFIGURED", "RUNNING", nil); err != nil {
		t.Fatal(err)
	}
	time.Sleep(300 * time.Millisecond)
	done := make(chan struct{})
	go func() { _, _ = tr.Commit("STOP", "RUNNING", "CONFIGURED", nil); close(done) }()
	select {
	case <-done:
	case <-time.After(5 * time.Second):
		t.Fatalf("second STOP hangs (alive child: %v)", markerAlive("sleep "+marker))
	}
}

var _ = syscall.SIGKILL
