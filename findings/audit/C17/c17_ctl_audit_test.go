package executable

import (
	"context"
	"encoding/json"
	"fmt"
	"net"
	"testing"
	"time"

	"github.com/AliceO2Group/Control/common"
	"github.com/AliceO2Group/Control/common/controlmode"
	pb "github.com/AliceO2Group/Control/executor/protos"
	mesos "github.com/mesos/mesos-go/api/v1/lib"
	"google.golang.org/grpc"
)

type auditOcc struct {
	pb.UnimplementedOccServer
	state string // "" => GetState fails (task not ready yet)
}

func (s *auditOcc) GetState(context.Context, *pb.GetStateRequest) (*pb.GetStateReply, error) {
	if s.state == "" {
		return s.UnimplementedOccServer.GetState(nil, nil)
	}
	return &pb.GetStateReply{State: s.state}, nil
}
func (s *auditOcc) EventStream(_ *pb.EventStreamRequest, srv pb.Occ_EventStreamServer) error {
	<-srv.Context().Done()
	return nil
}

func auditFreePort(t *testing.T) int {
	l, err := net.Listen("tcp", "127.0.0.1:0")
	if err != nil {
		t.Fatal(err)
	}
	p := l.Addr().(*net.TCPAddr).Port
	_ = l.Close()
	return p
}

func auditServe(t *testing.T, port int, state string) *grpc.Server {
	l, err := net.Listen("tcp", fmt.Sprintf("127.0.0.1:%d", port))
	if err != nil {
		t.Fatal(err)
	}
	s := grpc.NewServer()
	pb.RegisterOccServer(s, &auditOcc{state: state})
	go func() { _ = s.Serve(l) }()
	return s
}

func auditNewCtl(t *testing.T, shell bool, value string, port int, rec *auditRec) *ControllableTask {
	tci := common.TaskCommandInfo{ControlMode: controlmode.DIRECT, ControlPort: uint64(port)}
	tci.Shell = &shell
	tci.Value = &value
	data, err := json.Marshal(&tci)
	if err != nil {
		t.Fatal(err)
	}
	ti := mesos.TaskInfo{Name: "audit", TaskID: mesos.TaskID{Value: "audit-ctl"}, Data: data,
		Executor: &mesos.ExecutorInfo{ExecutorID: mesos.ExecutorID{Value: "x"}}}
	task := NewTask(ti, rec.status, rec.devEvent, func([]byte) {})
	ct, ok := task.(*ControllableTask)
	if !ok {
		t.Fatalf("NewTask gave %T", task)
	}
	return ct
}

// E: KILL that arrives while the control channel is still being dialled is a no-op: no signal is ever sent, the task then
// comes up, is reported RUNNING after the kill and lives on with no terminal status.
func TestAuditCtlKillWhileDiallingIsLost(t *testing.T) {
	marker := fmt.Sprintf("34%d", time.Now().UnixNano()%100000+41000)
	defer markerCleanup("sleep " + marker)
	port := auditFreePort(t)
	rec := &auditRec{}
	ct := auditNewCtl(t, true, "exec sleep "+marker, port, rec)
	if err := ct.Launch(); err != nil {
		t.Fatal(err)
	}
	time.Sleep(300 * time.Millisecond) // child started, gRPC dial in progress (nobody listens yet)
	if !markerAlive("sleep " + marker) {
		t.Fatal("child did not start")
	}
	done := make(chan error, 1)
	go func() { done <- ct.Kill() }()
	select {
	case err := <-done:
		t.Logf("Kill returned %v", err)
	case <-time.After(20 * time.Second):
		t.Fatal("Kill hangs")
	}
	srv := auditServe(t, port, "STANDBY") // now the task "becomes ready"
	defer srv.Stop()
	time.Sleep(12 * time.Second) // > SIGTERM_TIMEOUT+SIGINT_TIMEOUT escalation bound
	st, _ := rec.snapshot()
	t.Logf("statuses after Kill: %v", st)
	if markerAlive("sleep " + marker) {
		t.Fatalf("task process still alive 12s after Kill returned; statuses %v", st)
	}
}

// F: KILL that arrives while the launch goroutine polls a not-yet-ready task: Kill sets t.rpc = nil, the poll loop
// dereferences it -> nil pointer panic in a goroutine -> the executor process dies.
func TestAuditCtlKillWhilePollingCrashes(t *testing.T) {
	marker := fmt.Sprintf("35%d", time.Now().UnixNano()%100000+41000)
	defer markerCleanup("sleep " + marker)
	port := auditFreePort(t)
	srv := auditServe(t, port, "") // control port open, device not answering GetState yet
	defer srv.Stop()
	rec := &auditRec{}
	ct := auditNewCtl(t, true, "exec sleep "+marker, port, rec)
	if err := ct.Launch(); err != nil {
		t.Fatal(err)
	}
	time.Sleep(1200 * time.Millisecond) // in the polling loop
	_ = ct.Kill()
	time.Sleep(2 * time.Second)
	st, _ := rec.snapshot()
	t.Logf("survived; statuses %v", st)
}

// G: the command cannot be started (no such binary): taskCmd.Process is nil and is dereferenced -> panic.
func TestAuditCtlStartFailureCrashes(t *testing.T) {
	rec := &auditRec{}
	ct := auditNewCtl(t, false, "/nonexistent/audit-c17-binary", auditFreePort(t), rec)
	if err := ct.Launch(); err != nil {
		t.Fatal(err)
	}
	time.Sleep(1 * time.Second)
	st, _ := rec.snapshot()
	t.Logf("survived; statuses %v", st)
}
