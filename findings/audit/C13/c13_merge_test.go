package channel

import "testing"

// A role redeclares a channel of the task template by name to override one field; the rest (global alias, target)
// is meant to be filled from the template's declaration (mergo.Merge) but the merge is done on the range copy.
func TestC13MergeInboundKeepsTemplateGlobalAlias(t *testing.T) {
	role := []Inbound{{Channel: Channel{Name: "data", Transport: SHMEM}}}
	class := []Inbound{{Channel: Channel{Name: "data", Type: PULL, Transport: DEFAULT}, Global: "readout", Addressing: TCP}}
	got := MergeInbound(role, class)
	if len(got) != 1 || got[0].Global != "readout" || got[0].Type != PULL {
		t.Fatalf("merged inbound channel lost the template's global alias/type: %+v", got)
	}
}

func TestC13MergeOutboundKeepsTemplateTarget(t *testing.T) {
	role := []Outbound{{Channel: Channel{Name: "out", Transport: SHMEM}}}
	class := []Outbound{{Channel: Channel{Name: "out", Type: PUSH, Transport: DEFAULT, Target: "::readout"}}}
	got := MergeOutbound(role, class)
	if len(got) != 1 || got[0].Target != "::readout" {
		t.Fatalf("merged outbound channel lost the template's target: %+v", got)
	}
	if _, err := got[0].ToFMQMap(BindMap{"::readout": NewTcpEndpoint("host1", 9000, DEFAULT)}); err != nil {
		t.Fatalf("%v", err)
	}
}
