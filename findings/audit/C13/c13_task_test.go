package task

// Audit C13: real makeTaskForMesosResources (allocation of the bind endpoints), real configureTasks (environment-wide
// bind map, property maps), real CommandQueue / Servent with a fake transport that records the arguments each task
// would receive with CONFIGURE.

import (
	"strings"
	"sync"
	"testing"
	"time"

	"github.com/AliceO2Group/Control/common"
	"github.com/AliceO2Group/Control/common/controlmode"
	"github.com/AliceO2Group/Control/common/event"
	"github.com/AliceO2Group/Control/common/gera"
	"github.com/AliceO2Group/Control/common/utils/uid"
	"github.com/AliceO2Group/Control/core/controlcommands"
	"github.com/AliceO2Group/Control/core/task/channel"
	"github.com/AliceO2Group/Control/core/task/sm"
	"github.com/AliceO2Group/Control/core/task/taskclass"
	"github.com/mesos/mesos-go/api/v1/lib"
	"github.com/mesos/mesos-go/api/v1/lib/resources"
	"github.com/spf13/viper"
)

type c13Role struct {
	name    string
	class   string
	connect []channel.Outbound
	bind    []channel.Inbound
}

func (r *c13Role) UpdateStatus(Status)                         {}
func (r *c13Role) UpdateState(sm.State)                        {}
func (r *c13Role) GetPath() string                             { return "root." + r.name }
func (r *c13Role) GetTaskClass() string                        { return r.class }
func (r *c13Role) GetTaskTraits() Traits                       { return Traits{Timeout: "0s", Critical: true} }
func (r *c13Role) SetTask(*Task)                               {}
func (r *c13Role) GetEnvironmentId() uid.ID                    { return uid.NilID() }
func (r *c13Role) CollectOutboundChannels() []channel.Outbound { return r.connect }
func (r *c13Role) CollectInboundChannels() []channel.Inbound   { return r.bind }
func (r *c13Role) GetDefaults() gera.Map[string, string]       { return gera.MakeMap[string, string]() }
func (r *c13Role) GetVars() gera.Map[string, string]           { return gera.MakeMap[string, string]() }
func (r *c13Role) GetUserVars() gera.Map[string, string]       { return gera.MakeMap[string, string]() }
func (r *c13Role) ConsolidatedVarStack() (map[string]string, error) {
	return map[string]string{}, nil
}
func (r *c13Role) SendEvent(event.Event) {}
func (r *c13Role) GetName() string       { return r.name }

type c13Env struct {
	m     *Manager
	state *schedulerState
	mu    sync.Mutex
	got   map[string]controlcommands.PropertyMap // task id -> arguments of CONFIGURE
}

func c13Class(name string, bind []channel.Inbound, connect []channel.Outbound) *taskclass.Class {
	val := "/bin/true"
	cls := &taskclass.Class{
		Defaults:   gera.MakeMap[string, string](),
		Vars:       gera.MakeMap[string, string](),
		Properties: gera.MakeMap[string, string](),
		Command:    &common.CommandInfo{Value: &val},
		Bind:       bind,
		Connect:    connect,
	}
	cls.Identifier.Name = name
	cls.Control.Mode = controlmode.FAIRMQ
	return cls
}

func newC13Env(classes ...*taskclass.Class) *c13Env {
	viper.Set("config_endpoint", "mock://")
	e := &c13Env{got: map[string]controlcommands.PropertyMap{}}
	e.m = &Manager{roster: newRoster(), classes: taskclass.NewClasses()}
	for _, c := range classes {
		e.m.classes.UpdateClass(c.Identifier.Name, c)
	}
	e.state = &schedulerState{taskman: e.m, executor: &mesos.ExecutorInfo{Command: &mesos.CommandInfo{}}}
	var servent *controlcommands.Servent
	servent = controlcommands.NewServent(func(cmd controlcommands.MesosCommand, receiver controlcommands.MesosCommandTarget) error {
		tcmd := cmd.(*controlcommands.MesosCommand_Transition)
		e.mu.Lock()
		e.got[receiver.TaskId.Value] = tcmd.Arguments
		e.mu.Unlock()
		go servent.ProcessResponse(
			controlcommands.NewMesosCommandResponse_Transition(tcmd, nil, tcmd.Destination, receiver.TaskId.Value), receiver)
		return nil
	})
	e.m.cq = controlcommands.NewCommandQueue(servent)
	e.m.cq.Start()
	return e
}

// deploy runs the scheduler's real task construction for the role on the host.
func (e *c13Env) deploy(t *testing.T, role *c13Role, host string) *Task {
	offered := mesos.Resources{
		resources.NewCPUs(4).Resource,
		resources.NewMemory(4096).Resource,
		resources.Build().Name(resources.Name("ports")).Ranges(resources.BuildRanges().Span(9000, 50000).Ranges).Resource,
	}
	d := &Descriptor{TaskRole: role, TaskClassName: role.class, RoleBind: role.bind, RoleConnect: role.connect}
	wants, err := e.m.GetWantsForDescriptor(d, uid.NilID())
	if err != nil {
		t.Fatalf("wants: %v", err)
	}
	offer := &mesos.Offer{Hostname: host, AgentID: mesos.AgentID{Value: "agent-" + host}, ID: mesos.OfferID{Value: "offer-" + role.name}, Resources: offered}
	tk, ti := makeTaskForMesosResources(e.state, offer, d, wants, nil, offered,
		map[string]struct{}{}, mesos.ExecutorID{Value: "exec-" + role.name}, uid.NilID(), "", map[mesos.OfferID]struct{}{})
	if tk == nil || ti == nil {
		t.Fatalf("no task built for %s", role.name)
	}
	tk.status = ACTIVE
	e.m.roster.append(tk)
	return tk
}

func (e *c13Env) configure(tasks Tasks) error {
	done := make(chan error, 1)
	go func() { done <- e.m.configureTasks(uid.NilID(), tasks) }()
	select {
	case err := <-done:
		return err
	case <-time.After(20 * time.Second):
		panic("configureTasks did not return")
	}
}

// control: automatic TCP inbound, outbound by role path => the sender connects to the host and port the receiver binds.
func TestC13Control(t *testing.T) {
	e := newC13Env(
		c13Class("recv", []channel.Inbound{{Channel: channel.Channel{Name: "data", Type: channel.PULL, Transport: channel.DEFAULT}, Addressing: channel.TCP}}, nil),
		c13Class("send", nil, []channel.Outbound{{Channel: channel.Channel{Name: "out", Type: channel.PUSH, Transport: channel.DEFAULT, Target: "root.receiver:data"}}}),
	)
	defer e.m.cq.Stop()
	r := e.deploy(t, &c13Role{name: "receiver", class: "recv"}, "host1")
	s := e.deploy(t, &c13Role{name: "sender", class: "send"}, "host2")
	if err := e.configure(Tasks{r, s}); err != nil {
		t.Fatalf("configure: %v", err)
	}
	bound := e.got[r.taskId]["chans.data.0.address"]
	conn := e.got[s.taskId]["chans.out.0.address"]
	if strings.Replace(bound, "*", "host1", 1) != conn || conn == "" {
		t.Fatalf("receiver binds %q, sender connects to %q", bound, conn)
	}
}

// An inbound channel with an explicit bind address, targeted BY NAME by another role's outbound channel.
func TestC13ExplicitInboundTargetedByName(t *testing.T) {
	e := newC13Env(
		c13Class("recv", []channel.Inbound{{Channel: channel.Channel{Name: "data", Type: channel.PULL, Transport: channel.DEFAULT, Target: "tcp://*:30100"}, Addressing: channel.TCP}}, nil),
		c13Class("send", nil, []channel.Outbound{{Channel: channel.Channel{Name: "out", Type: channel.PUSH, Transport: channel.DEFAULT, Target: "root.receiver:data"}}}),
	)
	defer e.m.cq.Stop()
	r := e.deploy(t, &c13Role{name: "receiver", class: "recv"}, "host1")
	s := e.deploy(t, &c13Role{name: "sender", class: "send"}, "host2")
	if err := e.configure(Tasks{r, s}); err != nil {
		t.Logf("configure failed (acceptable): %v", err)
		return
	}
	bound := e.got[r.taskId]["chans.data.0.address"]
	conn := e.got[s.taskId]["chans.out.0.address"]
	if strings.Replace(bound, "*", "host1", 1) != conn {
		t.Fatalf("configuration succeeded, receiver is told to bind %q but the sender naming root.receiver:data is told to connect to %q", bound, conn)
	}
}

// The same with ipc: the inbound binds an explicit ipc path, the outbound gets a generated one.
func TestC13ExplicitIpcInboundTargetedByGlobalAlias(t *testing.T) {
	e := newC13Env(
		c13Class("recv", []channel.Inbound{{Channel: channel.Channel{Name: "data", Type: channel.PULL, Transport: channel.SHMEM, Target: "ipc:///tmp/readout-pipe"}, Global: "readout", Addressing: channel.IPC}}, nil),
		c13Class("send", nil, []channel.Outbound{{Channel: channel.Channel{Name: "out", Type: channel.PUSH, Transport: channel.DEFAULT, Target: "::readout"}}}),
	)
	defer e.m.cq.Stop()
	r := e.deploy(t, &c13Role{name: "receiver", class: "recv"}, "host1")
	s := e.deploy(t, &c13Role{name: "sender", class: "send"}, "host1")
	if err := e.configure(Tasks{r, s}); err != nil {
		t.Logf("configure failed (acceptable): %v", err)
		return
	}
	bound := e.got[r.taskId]["chans.data.0.address"]
	conn := e.got[s.taskId]["chans.out.0.address"]
	if bound != conn {
		t.Fatalf("configuration succeeded, receiver is told to bind %q but the sender naming ::readout is told to connect to %q", bound, conn)
	}
}

// Two inbound channels of ONE task (two different endpoints) claim the same global alias.
func TestC13SameGlobalAliasTwiceInOneTask(t *testing.T) {
	e := newC13Env(
		c13Class("recv", []channel.Inbound{
			{Channel: channel.Channel{Name: "a", Type: channel.PULL, Transport: channel.DEFAULT}, Global: "readout", Addressing: channel.TCP},
			{Channel: channel.Channel{Name: "b", Type: channel.PULL, Transport: channel.DEFAULT}, Global: "readout", Addressing: channel.TCP},
		}, nil),
		c13Class("send", nil, []channel.Outbound{{Channel: channel.Channel{Name: "out", Type: channel.PUSH, Transport: channel.DEFAULT, Target: "::readout"}}}),
	)
	defer e.m.cq.Stop()
	r := e.deploy(t, &c13Role{name: "receiver", class: "recv"}, "host1")
	s := e.deploy(t, &c13Role{name: "sender", class: "send"}, "host2")
	err := e.configure(Tasks{r, s})
	if err == nil {
		t.Fatalf("channels a (%s) and b (%s) both claim the global alias readout and the configuration succeeded; ::readout resolved to %s",
			e.got[r.taskId]["chans.a.0.address"], e.got[r.taskId]["chans.b.0.address"], e.got[s.taskId]["chans.out.0.address"])
	}
}

// control for the alias check: two TASKS claiming the same alias are rejected.
func TestC13SameGlobalAliasInTwoTasksControl(t *testing.T) {
	e := newC13Env(
		c13Class("recv", []channel.Inbound{
			{Channel: channel.Channel{Name: "a", Type: channel.PULL, Transport: channel.DEFAULT}, Global: "readout", Addressing: channel.TCP},
		}, nil),
	)
	defer e.m.cq.Stop()
	r1 := e.deploy(t, &c13Role{name: "receiver1", class: "recv"}, "host1")
	r2 := e.deploy(t, &c13Role{name: "receiver2", class: "recv"}, "host2")
	if err := e.configure(Tasks{r1, r2}); err == nil {
		t.Fatalf("two tasks claiming the same alias were accepted")
	}
}

// An inbound channel that cannot be configured (a target that is neither empty nor explicit) is dropped silently.
func TestC13InboundErrorSwallowed(t *testing.T) {
	e := newC13Env(
		c13Class("recv", []channel.Inbound{{Channel: channel.Channel{Name: "data", Type: channel.PULL, Transport: channel.DEFAULT, Target: "host1:30100"}, Addressing: channel.TCP}}, nil),
		c13Class("send", nil, []channel.Outbound{{Channel: channel.Channel{Name: "out", Type: channel.PUSH, Transport: channel.DEFAULT, Target: "root.receiver:data"}}}),
	)
	defer e.m.cq.Stop()
	r := e.deploy(t, &c13Role{name: "receiver", class: "recv"}, "host1")
	s := e.deploy(t, &c13Role{name: "sender", class: "send"}, "host2")
	if err := e.configure(Tasks{r, s}); err != nil {
		return
	}
	bound, ok := e.got[r.taskId]["chans.data.0.address"]
	if !ok {
		t.Fatalf("configuration succeeded, the sender connects to %q, but the receiver was given no chans.data.* at all (bound=%q)",
			e.got[s.taskId]["chans.out.0.address"], bound)
	}
}

// A reused task (reuseUnlockedTasks): launched for a role without role-level bind, claimed by a role that declares one.
func TestC13ReusedTaskMissingRoleLevelBind(t *testing.T) {
	e := newC13Env(c13Class("recv", nil, nil))
	defer e.m.cq.Stop()
	r := e.deploy(t, &c13Role{name: "receiver", class: "recv"}, "host1")
	// the second environment's role for the same class declares an inbound channel at role level
	role2 := &c13Role{name: "receiver", class: "recv", bind: []channel.Inbound{{Channel: channel.Channel{Name: "mon", Type: channel.PUB, Transport: channel.DEFAULT}, Addressing: channel.TCP}}}
	r.SetParent(role2)
	if err := e.configure(Tasks{r}); err != nil {
		return
	}
	if _, ok := e.got[r.taskId]["chans.mon.0.address"]; !ok {
		t.Fatalf("configuration succeeded but the inbound channel mon declared by the role was never configured")
	}
}
