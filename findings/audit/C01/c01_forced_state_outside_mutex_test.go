package core

// C01 audit: "at most one transition ... in progress at any instant; concurrent requests are executed one after the other".
// When the GO_ERROR that follows a failed request is itself refused (here: the critical leave_RUNNING hook that made
// STOP_ACTIVITY fail fails again), ControlEnvironment forces the state with env.Sm.SetState("ERROR") (server.go:644)
// AFTER TryTransition has released the transition mutex. The next queued request is then already inside fsm.Event
// (holding the FSM's state read-lock across before_/leave_ callbacks); SetState queues as a writer, the callbacks' next
// env.Sm.Current() queues behind that writer: the environment is stuck for ever with its transition mutex held.
// (uses the helpers of c01_done_not_terminal_test.go)

import (
	"context"
	"reflect"
	"testing"
	"time"

	pb "github.com/AliceO2Group/Control/core/protos"
	"github.com/AliceO2Group/Control/core/task"
	"github.com/AliceO2Group/Control/core/workflow"
)

func TestC01ConcurrentRequestsWithFailingGoError(t *testing.T) {
	r := c01Setup(t, "RUNNING", 0, 0)
	// leave_RUNNING: one call that takes 100 ms and one critical call that fails (e.g. an end-of-run call to a service that is down)
	wf := workflow.NewAggregatorRole("root", []workflow.Role{
		workflow.NewCallRole("slow", task.Traits{Trigger: "leave_RUNNING", Await: "leave_RUNNING", Timeout: "100ms", Critical: false}, "testplugin.Noop()", ""),
		workflow.NewCallRole("eor", task.Traits{Trigger: "leave_RUNNING", Await: "leave_RUNNING", Timeout: "1s", Critical: true}, "testplugin.Test()", ""),
	})
	workflow.LinkChildrenToParents(wf)
	c01Field(r.env, "workflow").Set(reflect.ValueOf(wf))
	wf.GetUserVars().Set("testplugin_fail", "true")

	const n = 2
	done := make(chan string, n)
	for i := 0; i < n; i++ {
		go func() {
			rep, _ := r.srv.ControlEnvironment(context.Background(), &pb.ControlEnvironmentRequest{Id: r.envId.String(), Type: pb.ControlEnvironmentRequest_STOP_ACTIVITY})
			if rep != nil {
				done <- rep.State
			} else {
				done <- "<nil>"
			}
		}()
	}
	for i := 0; i < n; i++ {
		select {
		case st := <-done:
			t.Logf("request answered, state %s", st)
		case <-time.After(8 * time.Second):
			t.Fatalf("only %d of %d concurrent STOP_ACTIVITY requests were answered within 8 s: the environment is stuck", i, n)
		}
	}
	if st := r.env.CurrentState(); st != "ERROR" {
		t.Fatalf("final state %s, expected ERROR", st)
	}
}
