package task

// C18 audit: a task owned by a live environment is KILLed on a reconciliation answer because it dropped out of the roster.
//
// doKillTasks prunes the roster with  m.roster.updateTasks(m.roster.filtered(...))  (manager.go:1168 and :1176): the
// roster is read under RLock, the lock is dropped, and the filtered copy is written back under Lock. A roster.append
// made in between by acquireTasks of ANOTHER environment (manager.go:645-646, runs in its own goroutine, holds neither
// killTasksMu nor - at that point - deployMu) is overwritten. The task is running on Mesos, locked by its (live)
// environment, but unknown to the roster: handleMessage's ownership test  m.GetTask(id) == nil  (manager.go:1303) then
// answers the TASK_RUNNING/REASON_RECONCILIATION of the next (re)SUBSCRIBED with a KILL.

import (
	"context"
	"fmt"
	"sync"
	"sync/atomic"
	"testing"
	"time"

	"github.com/AliceO2Group/Control/common/event"
	"github.com/AliceO2Group/Control/common/gera"
	"github.com/AliceO2Group/Control/common/utils/safeacks"
	"github.com/AliceO2Group/Control/common/utils/uid"
	"github.com/AliceO2Group/Control/core/task/channel"
	"github.com/AliceO2Group/Control/core/task/sm"
	"github.com/AliceO2Group/Control/core/task/taskclass"
	mesos "github.com/mesos/mesos-go/api/v1/lib"
	"github.com/mesos/mesos-go/api/v1/lib/scheduler"
	"github.com/mesos/mesos-go/api/v1/lib/scheduler/calls"
)

type c18Role struct{ env uid.ID }

func (r *c18Role) UpdateStatus(Status)                            {}
func (r *c18Role) UpdateState(sm.State)                           {}
func (r *c18Role) GetPath() string                                { return "root.role" }
func (r *c18Role) GetTaskClass() string                           { return "cls" }
func (r *c18Role) GetTaskTraits() Traits                          { return Traits{Critical: true} }
func (r *c18Role) SetTask(*Task)                                  {}
func (r *c18Role) GetEnvironmentId() uid.ID                       { return r.env }
func (r *c18Role) CollectOutboundChannels() []channel.Outbound    { return nil }
func (r *c18Role) GetDefaults() gera.Map[string, string]          { return gera.MakeMap[string, string]() }
func (r *c18Role) GetVars() gera.Map[string, string]              { return gera.MakeMap[string, string]() }
func (r *c18Role) GetUserVars() gera.Map[string, string]          { return gera.MakeMap[string, string]() }
func (r *c18Role) ConsolidatedVarStack() (map[string]string, error) { return map[string]string{}, nil }
func (r *c18Role) CollectInboundChannels() []channel.Inbound      { return nil }
func (r *c18Role) SendEvent(event.Event)                          {}
func (r *c18Role) GetName() string                                { return "role" }

func c18LockedTask(id string, role parentRole) *Task {
	return &Task{
		name: "cls#" + id, className: "cls", taskId: id,
		hostname: "host", agentId: "agent-1", offerId: "offer-1", executorId: "exec-1",
		parent: role, state: sm.RUNNING, status: ACTIVE,
	}
}

func TestC18OwnedTaskLostFromRosterIsKilledOnReconciliation(t *testing.T) {
	var kills int32
	var killedIds sync.Map
	cli := calls.CallerFunc(func(_ context.Context, c *scheduler.Call) (mesos.Response, error) {
		if c.GetType() == scheduler.Call_KILL {
			atomic.AddInt32(&kills, 1)
			killedIds.Store(c.GetKill().GetTaskID().Value, true)
		}
		return nil, nil
	})
	m := &Manager{
		roster:         newRoster(),
		classes:        taskclass.NewClasses(),
		schedulerState: &schedulerState{cli: cli},
		ackKilledTasks: safeacks.NewAcks(),
	}

	// environment X: already running, many tasks (only makes the filtering pass of doKillTasks take a moment)
	roleX := &c18Role{env: uid.New()}
	for i := 0; i < 3000; i++ {
		m.roster.append(c18LockedTask(fmt.Sprintf("x-%d", i), roleX))
	}

	// environment A is being torn down: its (already dead) tasks are handed to KillTasks, several times over
	stop := make(chan struct{})
	var wg sync.WaitGroup
	wg.Add(1)
	go func() {
		defer wg.Done()
		for {
			select {
			case <-stop:
				return
			default:
			}
			if _, _, err := m.KillTasks([]string{"a-already-gone"}); err != nil {
				t.Errorf("KillTasks: %v", err)
				return
			}
		}
	}()

	// environment B is being deployed: the tail of acquireTasks (manager.go:645-646) writes its launched, locked tasks
	// to the roster
	roleB := &c18Role{env: uid.New()}
	var tasksB Tasks
	for i := 0; i < 300; i++ {
		tk := c18LockedTask(fmt.Sprintf("b-%d", i), roleB)
		tasksB = append(tasksB, tk)
		m.roster.append(tk)
		time.Sleep(200 * time.Microsecond)
	}
	close(stop)
	wg.Wait()

	if n := atomic.LoadInt32(&kills); n != 0 {
		t.Fatalf("unexpected KILL calls during setup: %d", n)
	}

	// the master connection is re-established: Mesos answers the implicit reconciliation for every task of B
	lost := 0
	for _, tk := range tasksB {
		if !tk.IsLocked() || tk.GetEnvironmentId() != roleB.env {
			t.Fatalf("task %s is not owned by environment B any more", tk.taskId)
		}
		if m.GetTask(tk.taskId) == nil {
			lost++
		}
		reason := mesos.REASON_RECONCILIATION
		st := mesos.TASK_RUNNING
		_ = m.handleMessage(NewTaskStatusMessage(mesos.TaskStatus{
			TaskID:  mesos.TaskID{Value: tk.taskId},
			AgentID: &mesos.AgentID{Value: "agent-1"},
			State:   &st,
			Reason:  &reason,
		}))
	}
	time.Sleep(100 * time.Millisecond) // let the spawned updateTaskStatus goroutines finish
	if n := atomic.LoadInt32(&kills); n != 0 || lost != 0 {
		t.Fatalf("%d of %d locked tasks of live environment B dropped out of the roster; the reconciliation answers after a reconnection produced %d KILL calls for them", lost, len(tasksB), n)
	}
}
