package task

// C18 audit: the framework identity does not survive a restart when the configuration backend cannot store runtime
// entries (file:// and mock:// backends: apricot/local/service.go:560-567 always return an error; Consul/apricot
// backend: any transient failure of the one write). NewManager's store decorator (manager.go:117-125) only logs the
// error, the core carries on as a healthy framework, and the next life reads nothing (manager.go:128), so it
// subscribes WITHOUT an id (controller.Run subscribes with an id only if one is stored): Mesos registers a brand-new
// framework, the implicit reconciliation of the new framework reports none of the old tasks, and they stay alive and
// unowned until mesosFailoverTimeout (default 1000h, core/config.go:76).

import (
	"testing"

	"github.com/AliceO2Group/Control/core/the"
	"github.com/spf13/viper"
)

func TestC18FrameworkIdSurvivesRestart(t *testing.T) {
	viper.Reset()
	viper.Set("config_endpoint", "mock://") // same code path as --configServiceUri file://...yaml: not a ConsulSource
	viper.Set("executor", "/bin/true")
	viper.Set("metrics.address", "127.0.0.1")
	viper.Set("metrics.port", 0)
	viper.Set("metrics.path", "/metrics-c18")
	viper.Set("mesosFailoverTimeout", "1000h")

	// first life
	m, err := NewManager(func() {}, nil)
	if err != nil {
		t.Fatalf("NewManager: %v", err)
	}
	// Mesos answers SUBSCRIBED with the id it assigned; controller.TrackSubscription does exactly this Set
	if err := m.schedulerState.fidStore.Set("fw-of-first-life"); err != nil {
		t.Fatalf("the store reported the failed persistence: %v (that would be fine)", err)
	}
	if got := m.GetFrameworkID(); got != "fw-of-first-life" {
		t.Fatalf("in-memory id = %q", got)
	}

	// second life: what NewManager (manager.go:128) reads before creating the scheduler
	got, err := the.ConfSvc().GetRuntimeEntry("aliecs", "mesos_fid")
	if err != nil || got != "fw-of-first-life" {
		t.Fatalf("the restarted core finds framework id %q (err: %v), wants %q: it will register as a NEW framework and never reconcile - hence never kill - the tasks of its previous life", got, err, "fw-of-first-life")
	}
}
