package task

// C18 audit: the two calls the property rests on after a restart are fire-and-forget.
//  - scheduler.go:186  `_ = calls.CallNoData(ctx, state.cli, reconcileCall)`: a failed implicit RECONCILE (HTTP 503 /
//    mesosApiTimeout right after the master failover that caused the resubscription) is never repeated; the SUBSCRIBED
//    handler reports success, so the subscription stays up and NO task of the previous life is ever reported, let alone killed.
//  - manager.go:1305   `calls.CallNoData(context.TODO(), m.schedulerState.cli, killCall)`: the error of the KILL is dropped;
//    the reconciliation answer is consumed, nothing is remembered, the task stays alive and unowned.

import (
	"context"
	"errors"
	"sync/atomic"
	"testing"
	"time"

	"github.com/AliceO2Group/Control/common/utils/safeacks"
	"github.com/AliceO2Group/Control/core/task/taskclass"
	mesos "github.com/mesos/mesos-go/api/v1/lib"
	"github.com/mesos/mesos-go/api/v1/lib/scheduler"
	"github.com/mesos/mesos-go/api/v1/lib/scheduler/calls"
)

func TestC18FailedReconcileIsNotRepeated(t *testing.T) {
	var attempts, ok int32
	cli := calls.CallerFunc(func(_ context.Context, c *scheduler.Call) (mesos.Response, error) {
		if c.GetType() == scheduler.Call_RECONCILE {
			if atomic.AddInt32(&attempts, 1) == 1 {
				return nil, errors.New("503 service unavailable")
			}
			atomic.AddInt32(&ok, 1)
		}
		return nil, nil
	})
	state := &schedulerState{cli: cli}
	typ := scheduler.Event_SUBSCRIBED
	err := state.reconciliationCall()(context.Background(), &scheduler.Event{Type: typ})
	time.Sleep(200 * time.Millisecond)
	if err == nil && atomic.LoadInt32(&ok) == 0 {
		t.Fatalf("the implicit reconciliation failed (%d attempt), the handler reported success and nobody repeats it: the restarted core never learns of the tasks of its previous life", attempts)
	}
}

func TestC18FailedKillIsNotRepeated(t *testing.T) {
	var attempts, ok int32
	cli := calls.CallerFunc(func(_ context.Context, c *scheduler.Call) (mesos.Response, error) {
		if c.GetType() == scheduler.Call_KILL {
			if atomic.AddInt32(&attempts, 1) == 1 {
				return nil, errors.New("request timed out")
			}
			atomic.AddInt32(&ok, 1)
		}
		return nil, nil
	})
	m := &Manager{ // restarted core: empty roster
		roster:         newRoster(),
		classes:        taskclass.NewClasses(),
		schedulerState: &schedulerState{cli: cli},
		ackKilledTasks: safeacks.NewAcks(),
	}
	reason := mesos.REASON_RECONCILIATION
	st := mesos.TASK_RUNNING
	err := m.handleMessage(NewTaskStatusMessage(mesos.TaskStatus{
		TaskID: mesos.TaskID{Value: "task-of-previous-life"}, AgentID: &mesos.AgentID{Value: "agent-1"}, State: &st, Reason: &reason,
	}))
	time.Sleep(200 * time.Millisecond)
	if err == nil && atomic.LoadInt32(&ok) == 0 {
		t.Fatalf("the KILL of the unowned task failed (%d attempt), handleMessage reported success and nothing repeats it: the task survives unowned", attempts)
	}
}
