package environment

// C08 audit: TeardownEnvironment merges the hooks of trigger "after_DESTROY" into those of "DESTROY" with
// hooksMapForDestroy[k] = v: at a weight where both triggers have hooks, the DESTROY hooks are overwritten and never run.

import (
	"testing"
	"time"

	"github.com/AliceO2Group/Control/common/event"
	"github.com/AliceO2Group/Control/core/task"
	"github.com/AliceO2Group/Control/core/task/taskop"
	"github.com/AliceO2Group/Control/core/workflow"
)

func TestC08DestroyHookOverwrittenByAfterDestroyHook(t *testing.T) {
	env := c08setup(t)
	envId := env.id

	incoming := make(chan event.Event, 16)
	tm := &task.Manager{MessageChannel: make(chan *task.TaskmanMessage, 16)}
	envs := NewEnvManager(tm, incoming)

	env.workflow = workflow.NewAggregatorRole("root", []workflow.Role{
		workflow.NewCallRole(
			"ondestroy",
			task.Traits{Trigger: "DESTROY", Timeout: "1s", Critical: false, Await: "DESTROY"},
			"testplugin.Test()",
			""),
		workflow.NewCallRole(
			"afterdestroy",
			task.Traits{Trigger: "after_DESTROY", Timeout: "1s", Critical: false, Await: "after_DESTROY"},
			"testplugin.Test()",
			""),
		workflow.NewCallRole(
			"ondestroy5",
			task.Traits{Trigger: "DESTROY+5", Timeout: "1s", Critical: false, Await: "DESTROY+5"},
			"testplugin.Test()",
			"")})
	workflow.LinkChildrenToParents(env.workflow)
	env.Sm.SetState("DEPLOYED")

	envs.mu.Lock()
	envs.m[envId] = env
	envs.pendingStateChangeCh[envId] = env.stateChangedCh
	envs.mu.Unlock()

	stop := make(chan struct{})
	defer close(stop)
	go func() {
		for {
			select {
			case <-stop:
				return
			case msg := <-tm.MessageChannel:
				if msg.GetMessageType() != taskop.ReleaseTasks {
					continue
				}
				incoming <- event.NewTasksReleasedEvent(msg.GetEnvironmentId(), []string{}, map[string]error{})
			}
		}
	}()

	done := make(chan error, 1)
	go func() { done <- envs.TeardownEnvironment(envId, false) }()
	select {
	case err := <-done:
		if err != nil {
			t.Fatalf("TeardownEnvironment failed: %v", err)
		}
	case <-time.After(20 * time.Second):
		t.Fatal("TeardownEnvironment did not return")
	}

	get := func(k string) string { v, _ := env.workflow.GetUserVars().Get(k); return v }
	t.Logf("ondestroy=%q afterdestroy=%q ondestroy5=%q", get("root.ondestroy_called"), get("root.afterdestroy_called"), get("root.ondestroy5_called"))
	if get("root.afterdestroy_called") != "true" {
		t.Errorf("after_DESTROY+0 hook did not run")
	}
	if get("root.ondestroy5_called") != "true" {
		t.Errorf("DESTROY+5 hook did not run")
	}
	if get("root.ondestroy_called") != "true" {
		t.Errorf("DESTROY+0 hook never ran: it was overwritten by the after_DESTROY+0 hook of the same weight")
	}
}
