package environment

// C08/C09 audit: when hookHandlerF (task manager TriggerHooks) fails, runTasksAsHooks returns without stopping its
// collector goroutine. That goroutine keeps receiving from env.incomingEvents for ever ('continue' skips the exit check)
// and swallows the termination events of hook tasks of later moments, which are then never collected and time out.

import (
	"errors"
	"reflect"
	"testing"
	"time"
	"unsafe"

	"github.com/AliceO2Group/Control/common"
	"github.com/AliceO2Group/Control/common/event"
	"github.com/AliceO2Group/Control/common/gera"
	"github.com/AliceO2Group/Control/common/utils/uid"
	"github.com/AliceO2Group/Control/core/task"
	"github.com/AliceO2Group/Control/core/task/channel"
	"github.com/AliceO2Group/Control/core/task/sm"
	"github.com/AliceO2Group/Control/core/task/taskclass"
	pb "github.com/AliceO2Group/Control/executor/protos"
	"github.com/mesos/mesos-go/api/v1/lib"
	"github.com/spf13/viper"
)

type c08fParent struct {
	traits task.Traits
	envId  uid.ID
	kv     gera.Map[string, string]
}

func (p *c08fParent) UpdateStatus(task.Status)                    {}
func (p *c08fParent) UpdateState(sm.State)                        {}
func (p *c08fParent) GetPath() string                             { return "root.hook" }
func (p *c08fParent) GetTaskClass() string                        { return "hookclass" }
func (p *c08fParent) GetTaskTraits() task.Traits                  { return p.traits }
func (p *c08fParent) SetTask(*task.Task)                          {}
func (p *c08fParent) GetEnvironmentId() uid.ID                    { return p.envId }
func (p *c08fParent) CollectOutboundChannels() []channel.Outbound { return nil }
func (p *c08fParent) GetDefaults() gera.Map[string, string]       { return p.kv }
func (p *c08fParent) GetVars() gera.Map[string, string]           { return p.kv }
func (p *c08fParent) GetUserVars() gera.Map[string, string]       { return p.kv }
func (p *c08fParent) ConsolidatedVarStack() (map[string]string, error) {
	return map[string]string{}, nil
}
func (p *c08fParent) CollectInboundChannels() []channel.Inbound { return nil }
func (p *c08fParent) SendEvent(event.Event)                     {}
func (p *c08fParent) GetName() string                           { return "hook" }

func c08fSetField(obj interface{}, field string, value interface{}) {
	f := reflect.ValueOf(obj).Elem().FieldByName(field)
	reflect.NewAt(f.Type(), unsafe.Pointer(f.UnsafeAddr())).Elem().Set(reflect.ValueOf(value))
}

func c08fHook(taskId, name, timeout string, envId uid.ID) *task.Task {
	t := &task.Task{}
	t.GetTaskClass = func() *taskclass.Class { return &taskclass.Class{} }
	t.SetParent(&c08fParent{traits: task.Traits{Trigger: "before_CONFIGURE", Await: "before_CONFIGURE", Timeout: timeout, Critical: true},
		envId: envId, kv: gera.MakeMap[string, string]()})
	cmd := "/bin/" + name
	tci := &common.TaskCommandInfo{}
	tci.Value = &cmd
	c08fSetField(t, "taskId", taskId)
	c08fSetField(t, "name", name)
	c08fSetField(t, "hostname", "localhost")
	c08fSetField(t, "commandInfo", tci)
	return t
}

func c08fTerminated(taskId string, exitCode int) *event.BasicTaskTerminated {
	origin := event.DeviceEventOrigin{TaskId: mesos.TaskID{Value: taskId}}
	btt := event.NewDeviceEvent(origin, pb.DeviceEventType_BASIC_TASK_TERMINATED).(*event.BasicTaskTerminated)
	btt.ExitCode = exitCode
	btt.VoluntaryTermination = true
	btt.FinalMesosState = mesos.TASK_FINISHED
	if exitCode != 0 {
		btt.FinalMesosState = mesos.TASK_FAILED
	}
	return btt
}


func TestC08StaleCollectorStealsHookTerminations(t *testing.T) {
	viper.Set("config_endpoint", "mock://")
	envId, err := uid.FromString("2oDvieFrVTi")
	if err != nil {
		t.Fatal(err)
	}
	env, err := newEnvironment(map[string]string{}, envId)
	if err != nil || env == nil {
		t.Fatalf("cannot create environment: %v", err)
	}

	// 1st moment: the task manager cannot trigger the hook (e.g. executor unreachable): runTasksAsHooks returns at once
	first := c08fHook("hook-first", "first-hook", "10s", envId)
	env.hookHandlerF = func(hooks task.Tasks) error { return errors.New("cannot trigger hooks") }
	if errs := env.runTasksAsHooks(task.Tasks{first}); errs[first] == nil {
		t.Fatalf("expected the trigger failure to be reported")
	}

	// later moments: a healthy hook which terminates with exit code 0 after 10 ms, well within its 500 ms timeout
	lost := 0
	const rounds = 12
	for i := 0; i < rounds; i++ {
		good := c08fHook("hook-good", "good-hook", "500ms", envId)
		env.hookHandlerF = func(hooks task.Tasks) error {
			go func() {
				time.Sleep(10 * time.Millisecond)
				env.incomingEvents <- c08fTerminated("hook-good", 0)
			}()
			return nil
		}
		errs := env.runTasksAsHooks(task.Tasks{good})
		if errs[good] != nil {
			lost++
			t.Logf("round %d: %v", i, errs[good])
		}
	}
	if lost > 0 {
		t.Errorf("%d of %d healthy hook tasks (exit 0 after 10ms, timeout 500ms) were reported as failed: their termination event was consumed by the collector goroutine left over from the earlier failed trigger", lost, rounds)
	}
}
