package environment

// C08 audit: a call triggered at <moment>+0 and awaited at <moment>+50 (same moment, same sign group, nothing else
// declared at +50) is NOT awaited when the state machine passes <moment>+50: handleHooks computes the weight list
// before the call is registered in callsPendingAwait, so weight 50 is never visited.

import (
	"context"
	"testing"
	"time"

	"github.com/AliceO2Group/Control/common/utils/uid"
	"github.com/AliceO2Group/Control/core/integration"
	"github.com/AliceO2Group/Control/core/integration/testplugin"
	"github.com/AliceO2Group/Control/core/task"
	"github.com/AliceO2Group/Control/core/workflow"
	"github.com/spf13/viper"
)

func c08setup(t *testing.T) *Environment {
	integration.Reset()
	integration.RegisterPlugin("testplugin", "testPluginEndpoint", testplugin.NewPlugin)
	viper.Reset()
	viper.Set("integrationPlugins", []string{"testplugin"})
	viper.Set("testPluginEndpoint", "http://example.com")
	viper.Set("config_endpoint", "mock://")
	envId, err := uid.FromString("2oDvieFrVTi")
	if err != nil {
		t.Fatal(err)
	}
	env, err := newEnvironment(map[string]string{}, envId)
	if err != nil || env == nil {
		t.Fatalf("newEnvironment: %v", err)
	}
	return env
}

func TestC08AwaitAtLaterWeightOfSameMoment(t *testing.T) {
	env := c08setup(t)
	env.workflow = workflow.NewAggregatorRole("root", []workflow.Role{
		workflow.NewCallRole(
			"slow", // Noop sleeps for its timeout: 700ms
			task.Traits{Trigger: "before_CONFIGURE+0", Timeout: "700ms", Critical: true, Await: "before_CONFIGURE+50"},
			"testplugin.Noop()",
			"")})
	workflow.LinkChildrenToParents(env.workflow)
	env.Sm.SetState("DEPLOYED")

	start := time.Now()
	err := env.Sm.Event(context.Background(), "CONFIGURE", NewDummyTransition("CONFIGURE", false))
	elapsed := time.Since(start)
	if err != nil {
		t.Fatalf("CONFIGURE failed: %v", err)
	}
	t.Logf("state=%s elapsed=%s pending=%v", env.Sm.Current(), elapsed, env.callsPendingAwait)

	if n := len(env.callsPendingAwait["before_CONFIGURE"][50]); n != 0 {
		t.Errorf("the transition is complete (state %s) but %d call awaited at before_CONFIGURE+50 was never collected", env.Sm.Current(), n)
	}
	if elapsed < 700*time.Millisecond {
		t.Errorf("the state machine moved past before_CONFIGURE+50 (whole transition took %s) while the call awaited there needs 700ms", elapsed)
	}
}
