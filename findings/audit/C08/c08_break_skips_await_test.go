package environment

// C08 audit: at enter_<state> / after_<event> a critical failure does not cancel the transition, yet handleHooks
// breaks out of the weight loop: calls whose await point is a LATER weight of that moment are not awaited although the
// state machine moves on past that point (and completes the transition); hooks triggered at the later weights of the
// moment never run either.

import (
	"context"
	"testing"
	"time"

	"github.com/AliceO2Group/Control/core/task"
	"github.com/AliceO2Group/Control/core/workflow"
)

func TestC08CriticalFailureSkipsLaterAwaitPoints(t *testing.T) {
	env := c08setup(t)
	failing := workflow.NewCallRole(
		"failing",
		task.Traits{Trigger: "after_CONFIGURE+0", Timeout: "1s", Critical: true, Await: "after_CONFIGURE+0"},
		"testplugin.Test()",
		"")
	env.workflow = workflow.NewAggregatorRole("root", []workflow.Role{
		failing,
		workflow.NewCallRole(
			"slow", // Noop sleeps for its timeout
			task.Traits{Trigger: "before_CONFIGURE", Timeout: "700ms", Critical: true, Await: "after_CONFIGURE+10"},
			"testplugin.Noop()",
			""),
		workflow.NewCallRole(
			"late",
			task.Traits{Trigger: "after_CONFIGURE+20", Timeout: "1s", Critical: false, Await: "after_CONFIGURE+20"},
			"testplugin.Test()",
			"")})
	workflow.LinkChildrenToParents(env.workflow)
	failing.GetVars().Set("testplugin_fail", "true")
	env.Sm.SetState("DEPLOYED")

	start := time.Now()
	err := env.Sm.Event(context.Background(), "CONFIGURE", NewDummyTransition("CONFIGURE", false))
	elapsed := time.Since(start)
	t.Logf("err=%v state=%s elapsed=%s pending=%v", err, env.Sm.Current(), elapsed, env.callsPendingAwait)
	if env.Sm.Current() != "CONFIGURED" {
		t.Fatalf("unexpected state %s", env.Sm.Current())
	}
	if n := len(env.callsPendingAwait["after_CONFIGURE"][10]); n != 0 {
		t.Errorf("transition over (state CONFIGURED, after_CONFIGURE finished) but %d call awaited at after_CONFIGURE+10 was not collected; took %s, the call needs 700ms", n, elapsed)
	}
	if v, _ := env.workflow.GetUserVars().Get("root.late_called"); v != "true" {
		t.Errorf("the hook declared at after_CONFIGURE+20 never ran although the transition went through")
	}
}
