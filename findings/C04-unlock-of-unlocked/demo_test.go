package task

import (
	"testing"

	"github.com/AliceO2Group/Control/common/utils/uid"
	"github.com/AliceO2Group/Control/core/task/taskclass"
	"github.com/spf13/viper"
)

// With reuseUnlockedTasks on, an environment whose every task descriptor is satisfied by an idle (unlocked, claimable)
// task of the roster has nothing to launch: tasksToRun is empty. acquireTasks takes deployMu only when there is
// something to launch but releases it unconditionally.
func TestC04AcquireWithNothingToLaunch(t *testing.T) {
	viper.Set("reuseUnlockedTasks", true)
	defer viper.Set("reuseUnlockedTasks", false)
	m := &Manager{
		roster:  newRoster(),
		classes: taskclass.NewClasses(),
	}
	// no descriptor needs a new task (here: none at all; the same happens when all of them claim existing tasks)
	if err := m.acquireTasks(uid.New(), Descriptors{}); err != nil {
		t.Fatalf("acquireTasks: %v", err)
	}
}
