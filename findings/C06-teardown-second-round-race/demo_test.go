package environment

// C06 audit: TeardownEnvironment registers the channel for its SECOND release round in envs.pendingTeardownsCh while the
// manager's event loop may still be about to `delete(instance.pendingTeardownsCh, envId)` for the FIRST round
// (manager.go:135-140 vs manager.go:828-834). If the teardown goroutine wins the race for envs.mu, the event loop deletes
// the new entry; the answer to the second release is then treated as an "unexpected release", nobody ever writes to
// pendingCh and TeardownEnvironment blocks for ever at manager.go:841 holding the environment's transitionMutex: the
// destroy never returns, the environment stays listed and its detectors stay busy.
//
// Stand-ins: only the task manager loop (answers every ReleaseTasks with a TasksReleasedEvent, like task.Manager.releaseTasks).

import (
	"runtime"
	"testing"
	"time"

	"github.com/AliceO2Group/Control/common/event"
	"github.com/AliceO2Group/Control/common/utils/uid"
	"github.com/AliceO2Group/Control/core/integration"
	"github.com/AliceO2Group/Control/core/integration/testplugin"
	"github.com/AliceO2Group/Control/core/task"
	"github.com/AliceO2Group/Control/core/task/taskop"
	"github.com/AliceO2Group/Control/core/workflow"
	"github.com/spf13/viper"
)

func TestAuditC06TeardownSecondRoundRace(t *testing.T) {
	integration.Reset()
	integration.RegisterPlugin("testplugin", "testPluginEndpoint", testplugin.NewPlugin)
	viper.Reset()
	viper.Set("integrationPlugins", []string{"testplugin"})
	viper.Set("testPluginEndpoint", "http://example.com")
	viper.Set("config_endpoint", "mock://")

	incoming := make(chan event.Event, 16)
	tm := &task.Manager{MessageChannel: make(chan *task.TaskmanMessage, 16)}
	envs := NewEnvManager(tm, incoming)

	stop := make(chan struct{})
	defer close(stop)
	go func() {
		for {
			select {
			case <-stop:
				return
			case msg := <-tm.MessageChannel:
				if msg.GetMessageType() != taskop.ReleaseTasks {
					continue
				}
				go func(id uid.ID) {
					incoming <- event.NewTasksReleasedEvent(id, []string{}, map[string]error{})
				}(msg.GetEnvironmentId())
			}
		}
	}()

	// some CPU contention, as on a busy core
	for i := 0; i < runtime.GOMAXPROCS(0)*2; i++ {
		go func() {
			for {
				select {
				case <-stop:
					return
				default:
					runtime.Gosched()
				}
			}
		}()
	}

	const rounds = 20000
	for i := 0; i < rounds; i++ {
		envId := uid.New()
		env, err := newEnvironment(map[string]string{}, envId)
		if err != nil || env == nil {
			t.Fatalf("cannot create environment: %v", err)
		}
		root := workflow.NewAggregatorRole("root", []workflow.Role{})
		workflow.LinkChildrenToParents(root)
		env.workflow = root
		env.Sm.SetState("DEPLOYED")
		envs.mu.Lock()
		envs.m[envId] = env
		envs.pendingStateChangeCh[envId] = env.stateChangedCh
		envs.mu.Unlock()

		done := make(chan error, 1)
		go func() { done <- envs.TeardownEnvironment(envId, false) }()
		select {
		case err = <-done:
			if err != nil {
				t.Fatalf("round %d: TeardownEnvironment failed: %v", i, err)
			}
		case <-time.After(10 * time.Second):
			envs.mu.RLock()
			_, listed := envs.m[envId]
			_, pending := envs.pendingTeardownsCh[envId]
			envs.mu.RUnlock()
			t.Fatalf("round %d: TeardownEnvironment never returned (environment still listed: %v, second-round channel still registered: %v)", i, listed, pending)
		}
	}
}
