package environment

// C01 audit: DONE is terminal. A run started with auto_stop_enabled arms a timer (after_START_ACTIVITY); the timer is
// disarmed only by after_STOP_ACTIVITY / after_GO_ERROR. A forced teardown of the RUNNING environment (operator DESTROY
// with force) goes straight to DONE and leaves the timer armed; when it fires, STOP_ACTIVITY and GO_ERROR are both
// refused (DONE) and the goroutine forces the state: DONE -> ERROR (environment.go:1446-1456). No race is needed.

import (
	"testing"
	"time"

	"github.com/AliceO2Group/Control/common/event"
	"github.com/AliceO2Group/Control/common/utils/uid"
	"github.com/AliceO2Group/Control/core/integration"
	"github.com/AliceO2Group/Control/core/integration/testplugin"
	"github.com/AliceO2Group/Control/core/task"
	"github.com/AliceO2Group/Control/core/task/taskop"
	"github.com/AliceO2Group/Control/core/workflow"
	"github.com/spf13/viper"
)

func c01FakeTaskman(evCh chan event.Event, releaseDelay, cmdDelay time.Duration) *task.Manager {
	tm := &task.Manager{MessageChannel: make(chan *task.TaskmanMessage)}
	go func() {
		for msg := range tm.MessageChannel {
			msg := msg
			go func() {
				switch msg.GetMessageType() {
				case taskop.ReleaseTasks:
					time.Sleep(releaseDelay)
					evCh <- event.NewTasksReleasedEvent(msg.GetEnvironmentId(), []string{}, nil)
				case taskop.ConfigureTasks, taskop.TransitionTasks:
					time.Sleep(cmdDelay)
					evCh <- event.NewTasksStateChangedEvent(msg.GetEnvironmentId(), []string{}, nil)
				}
			}()
		}
	}()
	return tm
}

func c01Env(t *testing.T, mgr *Manager, state string) *Environment {
	env, err := newEnvironment(map[string]string{}, uid.New())
	if err != nil || env == nil {
		t.Fatalf("cannot create environment: %v", err)
	}
	env.workflow = workflow.NewAggregatorRole("root", []workflow.Role{})
	workflow.LinkChildrenToParents(env.workflow)
	env.Sm.SetState(state)
	mgr.mu.Lock()
	mgr.m[env.id] = env
	mgr.pendingStateChangeCh[env.id] = env.stateChangedCh
	mgr.mu.Unlock()
	return env
}

func c01Init() {
	integration.Reset()
	integration.RegisterPlugin("testplugin", "testPluginEndpoint", testplugin.NewPlugin)
	viper.Reset()
	viper.Set("integrationPlugins", []string{"testplugin"})
	viper.Set("testPluginEndpoint", "http://example.com")
	viper.Set("config_endpoint", "mock://")
}

func TestC01AutoStopTimerAfterForcedTeardown(t *testing.T) {
	c01Init()
	evCh := make(chan event.Event)
	tm := c01FakeTaskman(evCh, 0, 0)
	mgr := NewEnvManager(tm, evCh)
	env := c01Env(t, mgr, "CONFIGURED")
	env.workflow.GetVars().Set("auto_stop_enabled", "true")
	env.workflow.GetVars().Set("auto_stop_timeout", "500ms")

	if err := env.TryTransition(NewStartActivityTransition(tm)); err != nil {
		t.Fatalf("START_ACTIVITY failed: %v", err)
	}
	if st := env.CurrentState(); st != "RUNNING" {
		t.Fatalf("state after START_ACTIVITY: %s", st)
	}
	if env.autoStopTimer == nil {
		t.Fatalf("auto stop not scheduled")
	}
	if err := mgr.TeardownEnvironment(env.id, true); err != nil {
		t.Fatalf("forced teardown failed: %v", err)
	}
	if st := env.CurrentState(); st != "DONE" {
		t.Fatalf("state after teardown: %s", st)
	}
	time.Sleep(1500 * time.Millisecond)
	if st := env.CurrentState(); st != "DONE" {
		t.Fatalf("environment left DONE after its teardown completed: state is now %s", st)
	}
}
