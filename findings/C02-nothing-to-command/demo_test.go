package task

// C02: "a transition with nothing to command succeeds at once". Harness adapted from seeded/C02-1: the real
// task.Manager.transitionTasks, CommandQueue and Servent; only the transport is a fake.

import (
	"errors"
	"testing"
	"time"

	"github.com/AliceO2Group/Control/common"
	"github.com/AliceO2Group/Control/common/event"
	"github.com/AliceO2Group/Control/common/gera"
	"github.com/AliceO2Group/Control/common/utils/uid"
	"github.com/AliceO2Group/Control/core/controlcommands"
	"github.com/AliceO2Group/Control/core/task/channel"
	"github.com/AliceO2Group/Control/core/task/sm"
	"github.com/AliceO2Group/Control/core/task/taskclass"
)

type c02nRole struct {
	name     string
	critical bool
}

func (r *c02nRole) UpdateStatus(Status)                         {}
func (r *c02nRole) UpdateState(sm.State)                        {}
func (r *c02nRole) GetPath() string                             { return "root." + r.name }
func (r *c02nRole) GetTaskClass() string                        { return "class" }
func (r *c02nRole) GetTaskTraits() Traits                       { return Traits{Timeout: "0s", Critical: r.critical} }
func (r *c02nRole) SetTask(*Task)                               {}
func (r *c02nRole) GetEnvironmentId() uid.ID                    { return uid.NilID() }
func (r *c02nRole) CollectOutboundChannels() []channel.Outbound { return nil }
func (r *c02nRole) CollectInboundChannels() []channel.Inbound   { return nil }
func (r *c02nRole) GetDefaults() gera.Map[string, string]       { return gera.MakeMap[string, string]() }
func (r *c02nRole) GetVars() gera.Map[string, string]           { return gera.MakeMap[string, string]() }
func (r *c02nRole) GetUserVars() gera.Map[string, string]       { return gera.MakeMap[string, string]() }
func (r *c02nRole) ConsolidatedVarStack() (map[string]string, error) {
	return map[string]string{}, nil
}
func (r *c02nRole) SendEvent(event.Event) {}
func (r *c02nRole) GetName() string       { return r.name }

func c02nTask(id string, host string, critical bool) *Task {
	return &Task{
		parent:       &c02nRole{name: "role-" + id, critical: critical},
		className:    "class",
		name:         "class#" + id,
		hostname:     host,
		agentId:      "agent-" + host,
		offerId:      "offer-" + id,
		taskId:       id,
		executorId:   "executor-" + id,
		status:       ACTIVE,
		state:        sm.CONFIGURED,
		GetTaskClass: func() *taskclass.Class { return &taskclass.Class{} },
		commandInfo:  &common.TaskCommandInfo{},
	}
}

// c02nManager builds a Manager whose command queue talks to fake executors. outcomes maps a task id to
// "ok", "error" (the executor answers with an error) or "undeliverable" (the message cannot be sent).
func c02nManager(tasks Tasks, outcomes map[string]string) *Manager {
	m := &Manager{roster: newRoster()}
	for _, t := range tasks {
		m.roster.append(t)
	}
	var servent *controlcommands.Servent
	servent = controlcommands.NewServent(func(cmd controlcommands.MesosCommand, receiver controlcommands.MesosCommandTarget) error {
		tcmd, ok := cmd.(*controlcommands.MesosCommand_Transition)
		if !ok {
			return errors.New("unexpected command type")
		}
		taskId := receiver.TaskId.Value
		switch outcomes[taskId] {
		case "undeliverable":
			return errors.New("agent unreachable")
		case "error":
			go servent.ProcessResponse(
				controlcommands.NewMesosCommandResponse_Transition(tcmd, errors.New("transition failed"), tcmd.Source, taskId),
				receiver)
		default:
			go servent.ProcessResponse(
				controlcommands.NewMesosCommandResponse_Transition(tcmd, nil, tcmd.Destination, taskId),
				receiver)
		}
		return nil
	})
	m.cq = controlcommands.NewCommandQueue(servent)
	m.cq.Start()
	return m
}


func TestC02NothingToCommandSucceedsAtOnce(t *testing.T) {
	// one single-target case as a control (must succeed), then the empty case
	one := Tasks{c02nTask("t-a", "host1", true)}
	m := c02nManager(one, map[string]string{"t-a": "ok"})
	defer m.cq.Stop()
	if err := m.transitionTasks(uid.New(), one, sm.CONFIGURED.String(), sm.START.String(), sm.RUNNING.String(), nil); err != nil {
		t.Fatalf("control case: START with one acknowledging task failed: %v", err)
	}

	done := make(chan error, 1)
	go func() {
		done <- m.transitionTasks(uid.New(), Tasks{}, sm.CONFIGURED.String(), sm.START.String(), sm.RUNNING.String(), nil)
	}()
	select {
	case err := <-done:
		if err != nil {
			t.Fatalf("START with no task to command failed instead of succeeding at once: %v", err)
		}
	case <-time.After(20 * time.Second):
		t.Fatalf("START with no task to command did not return")
	}
}
