package environment

// Audit of property C03 - demos on the unchanged code (scratch copy /tmp/audit-C03).
// Real: environment.Manager event loop + handleDeviceEvent, Environment FSM / TryTransition / subscribeToWfState,
//       workflow roles + ParentAdapter, task.Manager.handleMessage / updateTaskState / updateTaskStatus.
// Fake: the executor side (a goroutine that answers every TransitionTasks request with success).

import (
	"fmt"
	"sync"
	"sync/atomic"
	"testing"
	"time"

	"github.com/AliceO2Group/Control/common/event"
	"github.com/AliceO2Group/Control/common/utils/uid"
	"github.com/AliceO2Group/Control/core/integration"
	"github.com/AliceO2Group/Control/core/integration/testplugin"
	"github.com/AliceO2Group/Control/core/task"
	"github.com/AliceO2Group/Control/core/task/sm"
	"github.com/AliceO2Group/Control/core/task/taskop"
	"github.com/AliceO2Group/Control/core/workflow"
	pb "github.com/AliceO2Group/Control/executor/protos"
	mesos "github.com/mesos/mesos-go/api/v1/lib"
	"github.com/spf13/viper"
)

type c03rig struct {
	envs     *Manager
	tm       *task.Manager
	incoming chan event.Event
	env      *Environment
	envId    uid.ID
	crit     *task.Task // critical task A
	crit2    *task.Task // critical task B
	noncrit  *task.Task
	stopReqs int32
	stop     chan struct{}
}

var (
	c03once     bool
	c03mu       sync.Mutex
	c03tm       *task.Manager
	c03envs     *Manager
	c03incoming chan event.Event
	c03stopReqs int32
	c03seq      int32
)

func c03setup(t *testing.T, envState string, taskState sm.State, subscribe bool) *c03rig {
	c03mu.Lock()
	if !c03once {
		integration.Reset()
		integration.RegisterPlugin("testplugin", "testPluginEndpoint", testplugin.NewPlugin)
		viper.Reset()
		viper.Set("integrationPlugins", []string{"testplugin"})
		viper.Set("testPluginEndpoint", "http://example.com")
		viper.Set("config_endpoint", "mock://")
		c03once = true
	}
	c03mu.Unlock()
	n := atomic.AddInt32(&c03seq, 1)
	r := &c03rig{stop: make(chan struct{})}
	r.envId = uid.New()
	env, err := newEnvironment(map[string]string{}, r.envId)
	if err != nil || env == nil {
		t.Fatalf("cannot create environment: %v", err)
	}
	r.env = env

	roleA := workflow.AuditNewTaskRole("critA", true)
	roleB := workflow.AuditNewTaskRole("critB", true)
	roleN := workflow.AuditNewTaskRole("noncrit", false)
	root := workflow.NewAggregatorRole("root", []workflow.Role{roleA, roleB, roleN})
	workflow.AuditSetRootParent(root, env.wfAdapter)
	workflow.LinkChildrenToParents(root)
	workflow.AuditSetRootParent(root, env.wfAdapter)
	env.workflow = root

	r.crit = task.AuditNewTask(fmt.Sprintf("task-critA-%d", n), roleA.(task.AuditParentRole), taskState)
	r.crit2 = task.AuditNewTask(fmt.Sprintf("task-critB-%d", n), roleB.(task.AuditParentRole), taskState)
	r.noncrit = task.AuditNewTask(fmt.Sprintf("task-noncrit-%d", n), roleN.(task.AuditParentRole), taskState)
	workflow.AuditSetTask(roleA, r.crit)
	workflow.AuditSetTask(roleB, r.crit2)
	workflow.AuditSetTask(roleN, r.noncrit)
	for _, tk := range []*task.Task{r.crit, r.crit2, r.noncrit} {
		tk.GetParent().UpdateStatus(task.ACTIVE)
		tk.GetParent().UpdateState(taskState)
	}
	if got := root.GetState(); got != taskState {
		t.Fatalf("rig: root state %s, want %s", got, taskState)
	}

	c03mu.Lock()
	if c03tm == nil {
		c03incoming = make(chan event.Event, 4096)
		c03tm = task.AuditNewManager(c03incoming)
		c03envs = NewEnvManager(c03tm, c03incoming)
		// the executor side: every transition request is carried out successfully by all targets
		go func() {
			for msg := range c03tm.MessageChannel {
				if msg.GetMessageType() == taskop.TransitionTasks {
					atomic.AddInt32(&c03stopReqs, 1)
					c03incoming <- event.NewTasksStateChangedEvent(msg.GetEnvironmentId(), msg.GetTasks().GetTaskIds(), nil)
				} else {
					_ = c03tm.AuditHandleMessage(msg) // the real taskman loop body
				}
			}
		}()
	}
	c03mu.Unlock()
	r.tm, r.envs, r.incoming = c03tm, c03envs, c03incoming
	r.tm.AuditAddTasks(r.crit, r.crit2, r.noncrit)
	env.Sm.SetState(envState)
	if envState == "RUNNING" {
		env.currentRunNumber = 4711
		env.workflow.SetRuntimeVar("run_end_time_ms", "")
		env.workflow.SetRuntimeVar("run_end_completion_time_ms", "")
	}
	r.envs.mu.Lock()
	r.envs.m[r.envId] = env
	r.envs.pendingStateChangeCh[r.envId] = env.stateChangedCh
	r.envs.mu.Unlock()

	if subscribe {
		env.subscribeToWfState(r.tm)
		time.Sleep(200 * time.Millisecond) // let the watcher goroutine subscribe
	}
	return r
}

func (r *c03rig) internalError(tk *task.Task) {
	deo := event.DeviceEventOrigin{
		AgentId:    mesos.AgentID{Value: tk.GetAgentId()},
		ExecutorId: mesos.ExecutorID{Value: tk.GetExecutorId()},
		TaskId:     mesos.TaskID{Value: tk.GetTaskId()},
	}
	ev := event.NewDeviceEvent(deo, pb.DeviceEventType_TASK_INTERNAL_ERROR)
	ev.SetLabels(map[string]string{"environmentId": r.envId.String()})
	r.incoming <- ev // what scheduler.incomingMessageHandler does with a DeviceEvent
}

func (r *c03rig) mesosStatus(tk *task.Task, st mesos.TaskState) {
	s := mesos.TaskStatus{TaskID: mesos.TaskID{Value: tk.GetTaskId()}, State: &st}
	r.tm.MessageChannel <- task.NewTaskStatusMessage(s) // what scheduler.statusUpdate does
}

func waitState(env *Environment, want string, d time.Duration) bool {
	deadline := time.Now().Add(d)
	for time.Now().Before(deadline) {
		if env.CurrentState() == want {
			return true
		}
		time.Sleep(20 * time.Millisecond)
	}
	return env.CurrentState() == want
}

// sanity: the rig does reach ERROR for a critical TASK_FAILED in an idle RUNNING environment
func TestC03Audit_Sanity_CriticalFailedGoesToError(t *testing.T) {
	r := c03setup(t, "RUNNING", sm.RUNNING, true)
	defer close(r.stop)
	r.mesosStatus(r.crit, mesos.TASK_FAILED)
	if !waitState(r.env, "ERROR", 3*time.Second) {
		t.Fatalf("rig broken: environment is %s after critical TASK_FAILED", r.env.CurrentState())
	}
}

// F1: "The same failures of a non-critical task never change the environment's state."
func TestC03Audit_F1_NonCriticalInternalErrorStopsTheRun(t *testing.T) {
	r := c03setup(t, "RUNNING", sm.RUNNING, true)
	defer close(r.stop)
	r.internalError(r.noncrit)
	time.Sleep(2 * time.Second)
	if got := r.env.CurrentState(); got != "RUNNING" {
		t.Errorf("a NON-critical task announced an internal error and the environment went from RUNNING to %s (STOP requests sent to tasks: %d)",
			got, atomic.LoadInt32(&c03stopReqs))
	}
}

// F2: a critical task of a CONFIGURED environment announces an internal error: the environment must end in ERROR.
func TestC03Audit_F2_CriticalInternalErrorInConfiguredIsIgnored(t *testing.T) {
	r := c03setup(t, "CONFIGURED", sm.CONFIGURED, true)
	defer close(r.stop)
	r.internalError(r.crit)
	if !waitState(r.env, "ERROR", 3*time.Second) {
		t.Errorf("critical task announced an internal error in a CONFIGURED environment; 3 s later the environment is %s, workflow state %s, task state %s",
			r.env.CurrentState(), r.env.workflow.GetState(), r.crit.AuditState())
	}
}

// F3: the failure arrives after the tasks were configured but before the watcher goroutine has subscribed
// (CreateEnvironment starts it only after TryTransition(CONFIGURE) returned, i.e. after the after_CONFIGURE hooks).
func TestC03Audit_F3_FailureBeforeWatcherStarts(t *testing.T) {
	r := c03setup(t, "CONFIGURED", sm.CONFIGURED, false)
	defer close(r.stop)
	r.mesosStatus(r.crit, mesos.TASK_FAILED)
	time.Sleep(300 * time.Millisecond)
	if r.env.workflow.GetState() != sm.ERROR {
		t.Fatalf("rig: workflow state %s", r.env.workflow.GetState())
	}
	r.env.subscribeToWfState(r.tm) // CreateEnvironment, manager.go:420
	if !waitState(r.env, "ERROR", 3*time.Second) {
		t.Errorf("critical task failed before the watcher subscribed; 3 s later the environment is %s with workflow state %s",
			r.env.CurrentState(), r.env.workflow.GetState())
	}
}

// F5: "its process dies": a critical (non-BASIC) task whose process exits with status 0 is reported TASK_FINISHED by the
// executor (controllabletask.go: pendingState = TASK_FINISHED unless Wait returned an error); the core books it as DONE.
func TestC03Audit_F5_CriticalProcessExitsCleanly(t *testing.T) {
	r := c03setup(t, "RUNNING", sm.RUNNING, true)
	defer close(r.stop)
	r.mesosStatus(r.crit, mesos.TASK_FINISHED)
	if !waitState(r.env, "ERROR", 3*time.Second) {
		t.Errorf("critical task's process is gone (TASK_FINISHED); 3 s later the environment is %s, workflow %s, task state %s",
			r.env.CurrentState(), r.env.workflow.GetState(), r.crit.AuditState())
	}
}
