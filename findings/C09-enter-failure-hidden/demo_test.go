package environment

// Audit C09: confirmed violations on the unchanged code. See the comment on each test.

import (
	"context"
	"errors"
	"reflect"
	"strings"
	"testing"
	"time"
	"unsafe"

	"github.com/AliceO2Group/Control/common"
	"github.com/AliceO2Group/Control/common/event"
	"github.com/AliceO2Group/Control/common/gera"
	"github.com/AliceO2Group/Control/common/utils/uid"
	"github.com/AliceO2Group/Control/core/integration"
	"github.com/AliceO2Group/Control/core/integration/testplugin"
	"github.com/AliceO2Group/Control/core/task"
	"github.com/AliceO2Group/Control/core/task/channel"
	"github.com/AliceO2Group/Control/core/task/sm"
	"github.com/AliceO2Group/Control/core/task/taskclass"
	"github.com/AliceO2Group/Control/core/workflow"
	"github.com/AliceO2Group/Control/core/workflow/callable"
	pb "github.com/AliceO2Group/Control/executor/protos"
	"github.com/mesos/mesos-go/api/v1/lib"
	"github.com/spf13/viper"
)

type auditParent struct {
	traits task.Traits
	envId  uid.ID
	kv     gera.Map[string, string]
	name   string
}

func (p *auditParent) UpdateStatus(task.Status)                    {}
func (p *auditParent) UpdateState(sm.State)                        {}
func (p *auditParent) GetPath() string                             { return "root." + p.name }
func (p *auditParent) GetTaskClass() string                        { return "hookclass" }
func (p *auditParent) GetTaskTraits() task.Traits                  { return p.traits }
func (p *auditParent) SetTask(*task.Task)                          {}
func (p *auditParent) GetEnvironmentId() uid.ID                    { return p.envId }
func (p *auditParent) CollectOutboundChannels() []channel.Outbound { return nil }
func (p *auditParent) GetDefaults() gera.Map[string, string]       { return p.kv }
func (p *auditParent) GetVars() gera.Map[string, string]           { return p.kv }
func (p *auditParent) GetUserVars() gera.Map[string, string]       { return p.kv }
func (p *auditParent) ConsolidatedVarStack() (map[string]string, error) {
	return map[string]string{}, nil
}
func (p *auditParent) CollectInboundChannels() []channel.Inbound { return nil }
func (p *auditParent) SendEvent(event.Event)                     {}
func (p *auditParent) GetName() string                           { return p.name }

func auditSetField(obj interface{}, field string, value interface{}) {
	f := reflect.ValueOf(obj).Elem().FieldByName(field)
	reflect.NewAt(f.Type(), unsafe.Pointer(f.UnsafeAddr())).Elem().Set(reflect.ValueOf(value))
}

func auditHook(name string, trigger string, critical bool, timeout string, envId uid.ID) *task.Task {
	t := &task.Task{}
	t.GetTaskClass = func() *taskclass.Class { return &taskclass.Class{} }
	t.SetParent(&auditParent{traits: task.Traits{Trigger: trigger, Await: trigger, Timeout: timeout, Critical: critical},
		envId: envId, kv: gera.MakeMap[string, string](), name: name})
	cmd := "/bin/" + name
	tci := &common.TaskCommandInfo{}
	tci.Value = &cmd
	auditSetField(t, "taskId", "id-"+name)
	auditSetField(t, "name", name)
	auditSetField(t, "hostname", "localhost")
	auditSetField(t, "commandInfo", tci)
	return t
}

func auditTerminatedOK(h *task.Task) *event.BasicTaskTerminated {
	origin := event.DeviceEventOrigin{TaskId: mesos.TaskID{Value: h.GetTaskId()}}
	btt := event.NewDeviceEvent(origin, pb.DeviceEventType_BASIC_TASK_TERMINATED).(*event.BasicTaskTerminated)
	btt.ExitCode = 0
	btt.VoluntaryTermination = true
	btt.FinalMesosState = mesos.TASK_FINISHED
	return btt
}

// a real (empty) aggregator role that additionally owns the given task hooks
type auditWorkflow struct {
	workflow.Role
	hooks map[string]callable.HooksMap // trigger name -> weight -> hooks
}

func (w *auditWorkflow) GetHooksMapForTrigger(trigger string) callable.HooksMap {
	if m, ok := w.hooks[trigger]; ok {
		return m
	}
	return make(callable.HooksMap)
}

type auditTransition struct {
	baseTransition
	ran *bool
}

func (t auditTransition) do(_ *Environment) error { *t.ran = true; return nil }

func auditEnv(t *testing.T) (*Environment, uid.ID) {
	integration.Reset()
	integration.RegisterPlugin("testplugin", "testPluginEndpoint", testplugin.NewPlugin)
	viper.Reset()
	viper.Set("integrationPlugins", []string{"testplugin"})
	viper.Set("testPluginEndpoint", "http://example.com")
	viper.Set("config_endpoint", "mock://")
	envId, err := uid.FromString("2oDvieFrVTi")
	if err != nil {
		t.Fatal(err)
	}
	env, err := newEnvironment(map[string]string{}, envId)
	if err != nil || env == nil {
		t.Fatalf("cannot create environment: %v", err)
	}
	return env, envId
}

func auditFire(t *testing.T, env *Environment, ev string, ran *bool) error {
	done := make(chan error, 1)
	go func() {
		done <- env.Sm.Event(context.Background(), ev, auditTransition{baseTransition: baseTransition{name: ev}, ran: ran})
	}()
	select {
	case err := <-done:
		return err
	case <-time.After(30 * time.Second):
		t.Fatal("transition did not return")
	}
	return nil
}

// FINDING 1. A NON-critical task hook at before_CONFIGURE-1 cannot be triggered (TriggerHooks returns an error).
// That is correctly not reported. But runTasksAsHooks returns on that path without ending its collecting goroutine,
// which keeps receiving from env.incomingEvents for ever ("continue" for foreign task ids skips the exit test).
// The critical hook at before_CONFIGURE+0 then runs fine and terminates with exit code 0, but its
// BASIC_TASK_TERMINATED event (delivered through the real NotifyEvent) is received by the stale goroutine:
// the successful critical hook is declared "timed out" and the transition is cancelled.
// Nothing critical failed; the only failure was that of a non-critical hook.
func TestAuditC09_StaleCollectorStealsTermination(t *testing.T) {
	env, envId := auditEnv(t)
	n := auditHook("noncritical-hook", "before_CONFIGURE-1", false, "1s", envId)
	c := auditHook("critical-hook", "before_CONFIGURE", true, "1s", envId)
	root := workflow.NewAggregatorRole("root", []workflow.Role{})
	workflow.LinkChildrenToParents(root)
	env.workflow = &auditWorkflow{Role: root, hooks: map[string]callable.HooksMap{
		"before_CONFIGURE": {-1: callable.Hooks{n}, 0: callable.Hooks{c}},
	}}
	env.Sm.SetState("DEPLOYED")

	env.hookHandlerF = func(hooks task.Tasks) error {
		if hooks[0] == n {
			return errors.New("[task id-noncritical-hook] MesosCommand send error: agent unreachable")
		}
		go func() {
			time.Sleep(50 * time.Millisecond)
			env.NotifyEvent(auditTerminatedOK(c)) // the way the environment manager delivers it
		}()
		return nil
	}
	ran := false
	err := auditFire(t, env, "CONFIGURE", &ran)
	if err != nil {
		t.Errorf("only a non-critical hook failed, the critical one exited 0 in time, yet the transition reports: %v", err)
	}
	if st := env.Sm.Current(); st != "CONFIGURED" {
		t.Errorf("state is %s, want CONFIGURED", st)
	}
	if !ran {
		t.Errorf("task command not executed")
	}
}

// FINDING 2. One weight holds a non-critical hook N and a critical hook C. The TRIGGER_HOOK command reaches C but not N
// ((*task.Manager).TriggerHooks merges the per-target errors into one error: manager.go:942-947, multiresponse.go:63-83).
// C runs and exits 0. runTasksAsHooks answers the single error of the handler by blaming EVERY hook of the weight
// (environment.go:956-958), so the failure of the non-critical hook is reported as a critical failure and cancels.
func TestAuditC09_PartialTriggerFailureBlamesCriticalHook(t *testing.T) {
	env, envId := auditEnv(t)
	n := auditHook("noncritical-hook", "before_CONFIGURE", false, "2s", envId)
	c := auditHook("critical-hook", "before_CONFIGURE", true, "2s", envId)
	root := workflow.NewAggregatorRole("root", []workflow.Role{})
	workflow.LinkChildrenToParents(root)
	env.workflow = &auditWorkflow{Role: root, hooks: map[string]callable.HooksMap{
		"before_CONFIGURE": {0: callable.Hooks{n, c}},
	}}
	env.Sm.SetState("DEPLOYED")
	env.hookHandlerF = func(hooks task.Tasks) error {
		env.NotifyEvent(auditTerminatedOK(c)) // C was triggered and finished all right
		return errors.New("[task id-noncritical-hook] MesosCommand send error: agent unreachable")
	}
	ran := false
	err := auditFire(t, env, "CONFIGURE", &ran)
	if err != nil {
		t.Errorf("only the non-critical hook could not be triggered, yet the transition reports: %v", err)
	}
	if st := env.Sm.Current(); st != "CONFIGURED" {
		t.Errorf("state is %s, want CONFIGURED", st)
	}
}

// FINDING 3. NotifyEvent never blocks: it drops the event when the collecting goroutine is not sitting in its select at
// that very instant (environment.go:96-103). Two critical hooks of one weight that both exit 0 at (nearly) the same time:
// the second termination arrives while the collector is still handling the first, is dropped, and that successful hook
// is reported as timed out - the transition is cancelled although no hook failed.
func TestAuditC09_SimultaneousTerminationsDropped(t *testing.T) {
	env, envId := auditEnv(t)
	a := auditHook("hook-a", "before_CONFIGURE", true, "1s", envId)
	b := auditHook("hook-b", "before_CONFIGURE", true, "1s", envId)
	root := workflow.NewAggregatorRole("root", []workflow.Role{})
	workflow.LinkChildrenToParents(root)
	env.workflow = &auditWorkflow{Role: root, hooks: map[string]callable.HooksMap{
		"before_CONFIGURE": {0: callable.Hooks{a, b}},
	}}
	env.Sm.SetState("DEPLOYED")
	env.hookHandlerF = func(hooks task.Tasks) error {
		go func() {
			time.Sleep(50 * time.Millisecond)
			// one dispatcher goroutine, one event after the other (environment/manager.go:80-85)
			env.NotifyEvent(auditTerminatedOK(a))
			env.NotifyEvent(auditTerminatedOK(b))
		}()
		return nil
	}
	ran := false
	err := auditFire(t, env, "CONFIGURE", &ran)
	if err != nil {
		t.Errorf("both critical hooks exited 0 within their timeout, yet the transition reports: %v", err)
	}
	if st := env.Sm.Current(); st != "CONFIGURED" {
		t.Errorf("state is %s, want CONFIGURED", st)
	}
}

// FINDING 4. A call started at before_CONFIGURE-1 and awaited at after_CONFIGURE stays registered in callsPendingAwait
// when a critical hook at before_CONFIGURE+0 cancels the transition. The retried CONFIGURE, in which every hook succeeds,
// collects the leftover call of the CANCELLED attempt at after_CONFIGURE and reports its old failure to the caller.
func TestAuditC09_LeftoverCallOfCancelledTransitionFailsTheRetry(t *testing.T) {
	env, _ := auditEnv(t)
	early := workflow.NewCallRole("early",
		task.Traits{Trigger: "before_CONFIGURE-1", Timeout: "5s", Critical: true, Await: "after_CONFIGURE"}, "testplugin.Test()", "")
	gate := workflow.NewCallRole("gate",
		task.Traits{Trigger: "before_CONFIGURE", Timeout: "5s", Critical: true, Await: "before_CONFIGURE"}, "testplugin.Test()", "")
	env.workflow = workflow.NewAggregatorRole("root", []workflow.Role{early, gate})
	workflow.LinkChildrenToParents(env.workflow)
	env.Sm.SetState("DEPLOYED")

	env.workflow.GetUserVars().Set("testplugin_fail", "true")
	ran := false
	err := auditFire(t, env, "CONFIGURE", &ran)
	if err == nil || env.Sm.Current() != "DEPLOYED" || ran {
		t.Fatalf("set-up: first attempt must be cancelled at before_CONFIGURE: err=%v state=%s ran=%v", err, env.Sm.Current(), ran)
	}
	time.Sleep(200 * time.Millisecond)

	env.workflow.GetUserVars().Set("testplugin_fail", "false") // the cause is repaired
	err = auditFire(t, env, "CONFIGURE", &ran)
	if st := env.Sm.Current(); st != "CONFIGURED" {
		t.Errorf("state is %s, want CONFIGURED", st)
	}
	if err != nil {
		t.Errorf("no hook of the retried transition failed, yet it reports: %v", err)
	}
}

// FINDING 5. Critical hooks fail at enter_CONFIGURED and at after_CONFIGURE. fsm.Event.Cancel overwrites e.Err, so the
// caller only hears about after_CONFIGURE: the enter_CONFIGURED failure is not reported.
func TestAuditC09_EnterFailureOverwrittenByAfterFailure(t *testing.T) {
	env, _ := auditEnv(t)
	enter := workflow.NewCallRole("enter",
		task.Traits{Trigger: "enter_CONFIGURED", Timeout: "5s", Critical: true, Await: "enter_CONFIGURED"}, "testplugin.Test()", "")
	after := workflow.NewCallRole("after",
		task.Traits{Trigger: "after_CONFIGURE", Timeout: "5s", Critical: true, Await: "after_CONFIGURE"}, "testplugin.Test()", "")
	env.workflow = workflow.NewAggregatorRole("root", []workflow.Role{enter, after})
	workflow.LinkChildrenToParents(env.workflow)
	env.Sm.SetState("DEPLOYED")
	env.workflow.GetUserVars().Set("testplugin_fail", "true")
	ran := false
	err := auditFire(t, env, "CONFIGURE", &ran)
	if err == nil {
		t.Fatal("no error at all")
	}
	if !strings.Contains(err.Error(), "enter_CONFIGURED") {
		t.Errorf("the enter_CONFIGURED failure is not reported to the caller: %v", err)
	}
	if !strings.Contains(err.Error(), "after_CONFIGURE") {
		t.Errorf("the after_CONFIGURE failure is not reported to the caller: %v", err)
	}
}
