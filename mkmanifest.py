#!/usr/bin/env python3
"""Regenerates /verif/MANIFEST.json from the table below (single place to edit)."""
import json, subprocess

TECH = "contract-based deductive verification: weakest-precondition VCs over go/ssa of the real code, //@ contracts, discharged by z3/cvc5"

# property -> (level text, level note, design ref)   -- only properties with a working check are listed here
CLAIMED = {
 "C11": ("Proof, for all inputs and all loop iterations, of the contracts of State.X / Status.X (semilattice lemmas extracted from "
         "the real code and the real STATUS_PRODUCT initialiser), aggregateState / aggregateStatus (result == fold of the children, "
         "criticality filter, early-exit justified by an inductively proved absorption lemma), SafeState.merge / SafeStatus.merge (each "
         "shortcut restores cache == fold of children; frame: only the cache cell is written) and the leaf/aggregator update functions. "
         "Unbounded: loops by inductive invariants, lists by recursive spec functions.",
         "KNOWN FINDING (listed in known_findings.txt, check prints KNOWN-FINDING and exits 0): the establishment of the aggregation invariant "
         "fails for aggregators without critical descendants (they start in STANDBY instead of 'no opinion'; root{critical task, agg{non-critical "
         "task}} all CONFIGURED reports MIXED). Sequential reasoning only: concurrent updates to different leaves are not explored (each merge runs under the role's lock; "
         "linearizability of the recompute is residue). Interface-method contracts Role.GetState/GetStatus/GetRoles are assumed for all "
         "implementations; mutexes treated as no-ops on data; STATUS_PRODUCT assumed unmodified after init (checked by a closed-world scan).",
         "DESIGN.md §6 C11"),
 "C20": ("Proof of the four-step fallback of resolveComponentQuery for all 16 existence patterns at once (existence is an uninterpreted "
         "predicate of the path, so the patterns are symbolic, not enumerated): result is the first existing of (rt,role),(ANY,role),(rt,any),(ANY,any), "
         "none => error and nil, a resolved path always exists; a probe the backend cannot answer (a second uninterpreted predicate of the path) ends the resolution with an error instead of falling through to a less specific entry (genuine defect, repaired); ResolveComponentQuery(nil) is an error, not a panic (genuine defect, repaired); plus contracts of queryToAbsPath, Query.Raw/AbsoluteRaw (string built from exactly "
         "component/runtype-name/role/entry) and WithFallbackRunType/RoleName (field-wise, fresh object, frame).",
         "Store content assumed constant during one resolution (ROSource.Exists is an assumed pure contract). Strings are an uninterpreted sort with "
         "uninterpreted concatenation (sufficient: spec and code build the path by the same concatenations). NOT decided here: the regular-expression "
         "parse/print round trip of query strings (regexp engine: outside the verifier's subset) and payload templating (template engine, reflection) - "
         "those two clauses of the statement are not applicable to this technique.",
         "DESIGN.md §6 C20"),
 "C16": ("Proof for all outcome patterns at once (the device's answers are symbolic, the functions are loop-free, so this is complete, not sampled) "
         "of FairMQ.Commit, doConfigure, doReset, Direct.Commit against a ghost device state: unless the last step got no reply the reported state is "
         "the image of the state the device is really in; success (err == nil) only if the device is in the destination; a device left in an "
         "intermediate state (INITIALIZED, BOUND, DEVICE READY) only after a rollback to the source state was requested from that state and not "
         "accepted; fmqStateForState/stateForFmqState are the documented correspondence; RpcClient.doTransition accepts a reply only if ok, "
         "executor-triggered, same event and expected state and otherwise hands on the reply's state.",
         "Assumed device model for the injected DoTransition function (four outcomes: done only if the device was in the requested source state, refused in "
         "place, error state, no reply), backed by occ/plugin/OccFMQCommon.cxx's source-state check but not verified. The representation invariant of the "
         "transitioner's two maps (wfFMQ) is a precondition, its establishment by NewFairMQTransitioner is not yet verified. RECOVER/GO_ERROR/unknown events "
         "('not implemented yet' branch returning src) are outside Commit's precondition. gRPC stub assumed not to write executor memory. "
         "Strings uninterpreted with distinct literals.",
         "DESIGN.md §6 C16"),
 "C05": ("Proof (unbounded: inductive loop invariants, quantified over all attribute and constraint lists) of the matching functions: "
         "Attributes.Get (first attribute of that name), Attributes.Satisfy (true iff EVERY constraint is satisfied), Constraints.MergeParent (override: "
         "wherever the merged list mentions an attribute the child constrains it carries the child's constraint; parent entries keep position and are "
         "untouched where the child is silent; no attribute constrained twice; inputs not written), port.RangesFromExpression (item i of the expression "
         "is exactly \"a\" or \"a-b\"), utils.StringSliceContains. Two genuine defects were found by these obligations and repaired with fix: commits "
         "(Satisfy's break-in-switch, range end parsed from the first field) - see known_findings.txt.",
         "Resources.Satisfy compares cpu, memory, static ranges (subset) and the number of remaining ports; makeTaskForMesosResources takes every "
         "dynamic port and the control port as the minimum of what is left of the offer's ports above the reserved cut, only when something is "
         "left (a third genuine defect, Ranges.Min of an empty range, repaired), and subtracts it before the next one is taken. The task's whole request (cpu, memory, static ports, executor resources) is "
         "subtracted from what is left of the offer once it is built (a fourth genuine defect, repaired); reversed port ranges are refused (a fifth). "
         "Not under contract: the mesos-go resource algebra itself (that Subtract really removes what it is given, e.g. for ports carrying a role), a dynamic "
         "port coinciding with one of the same task's static ports, and the OFFERS handler's bookkeeping (unused offers declined). strings.Split/Contains/TrimSpace, strconv.ParseUint are assumed deterministic functions (uninterpreted); mesos-go getters are "
         "executed symbolically; precondition: operators are Equals and no attribute is constrained twice inside one list; slice parameters modelled at "
         "offset 0; append modelled as copy.",
         "DESIGN.md §6 C05"),
 "C07": ("Proof of ConsulSource.GetNextUInt32 against a ghost model of the Consul key that allows other writers to act between any two "
         "operations: a successful call stored exactly the number it returns by the atomic CAS (api.wrote), that number is the stored number "
         "immediately before the CAS plus one (1 for a fresh key), and it is larger than every number stored before the call started; the read uses "
         "RequireConsistent (call-site precondition); the uint32 counter never wraps (genuine defect found by this obligation from the solver's model "
         "value64 = 4294967295, repaired by a fix: commit). Uniqueness and monotonicity across racing callers and restarts follow from these per-call "
         "facts plus CAS atomicity.",
         "Assumed: Consul linearizable reads and atomic CAS on ModifyIndex (trusted contracts of api.KV.Get/CAS in contracts/ext/base.gvc), other writers "
         "never decrease the key, strconv.ParseUint/FormatUint mutually inverse (uninterpreted). The START_ACTIVITY cancellation when no number can be "
         "obtained is checked under C10's site clauses once those are claimed. The file-backed counter of apricot/local (development backend) is under contract for what can be said per call: the read-increment-write cycle runs under a process-wide mutex, the result is never 0 and the counter does not wrap (both were genuine defects, repaired); it is not safe across processes and a lost counter file restarts the numbering - not claimed.",
         "DESIGN.md §6 C07"),
 "C01": ("Proof obligations on the real code, for all paths: (1) the fsm.Events literal of newEnvironment is exactly the documented graph (structural "
         "obligation read from the SSA constants); (2) closed world: every call of Environment.setState and fsm.FSM.SetState in the repository sits in a "
         "function under contract and passes \"ERROR\" or \"DONE\" (the watcher's wfState.String() is proved to be \"ERROR\" from State.String's contract and "
         "the fact that wfState is never assigned after the timer is armed); (3) TryTransition fires the FSM event only while holding transitionMutex, "
         "released by a deferred Unlock, after the transition's own check; (4) TeardownEnvironment forces DONE only under the same mutex; (5) the API maps "
         "a failed transition to GO_ERROR and forces ERROR if that is refused too (ControlEnvironment, all paths).",
         "Lock discipline only: mutual exclusion itself is sync.RWMutex's semantics (assumed); concurrent callers are not explored. The looplab/fsm "
         "library's behaviour (an event not in the table returns an error before any callback) is assumed. That EXIT/RECOVER are never requested is not "
         "yet an obligation. Unknown callees are havocked (sound over-approximation); site clauses name call sites by callee, not by line.",
         "DESIGN.md §6 C01"),
 "C08": ("Proof obligations for all paths of the four FSM callbacks (negative-weight hooks, then the built-in work, then non-negative hooks - each exactly "
         "in that order, asserted at every call site by ghost phase variables), of the three weight predicates (w<0, w>=0, all), of HooksMap/CallsMap."
         "GetWeights (result sorted ascending, one entry per key; loop invariants, sort.Ints assumed) and of handleHooks (the filtered weight list is an "
         "order-preserving, hence sorted, sub-list; per weight: start calls before awaiting calls before running task hooks).",
         "The order of moments across callbacks (before_event, leave_state, enter_state, after_event) is the looplab/fsm contract (assumed). "
         "ParseTriggerExpression (string parsing) and the bookkeeping that every started call is awaited exactly once or cancelled at teardown are not "
         "yet under contract. What a plugin does after Start() returned is outside. Calls through the weightPredicate parameter are treated as pure "
         "(all three call sites pass closures verified pure).",
         "DESIGN.md §6 C08"),
 "C09": ("Proof obligations for all paths: a hook error at before_<event> / leave_<state> calls Cancel and returns before any later hook or the task "
         "transition (ghost flags negErr/cancelled at the call sites of the real callbacks); at enter_<state> / after_<event> Cancel only records the "
         "error and the remaining steps still run; handlerFunc runs the transition body only for an event not already cancelled and cancels on its "
         "error; in handleHooks an error is appended to the critical failures only under hook.GetTraits().Critical; goroutine frame obligations for "
         "Calls.AwaitAll (shared result map written only under a mutex - a genuine defect found here and repaired by a fix: commit).",
         "fsm semantics of Cancel (state unchanged when cancelled in before/leave) assumed. Real timeouts, runTasksAsHooks' select-based collector and its "
         "classification of exit codes are not yet under contract. Goroutine frames are an ownership argument (who may write what), not an exploration "
         "of schedules.",
         "DESIGN.md §6 C09"),
 "C10": ("Proof obligations for all paths of the real callbacks: in before_START_ACTIVITY the run number is requested, stored and the run timestamps "
         "are written strictly after the negative-weight hooks and before the non-negative ones, never on a cancelled path, and a failing NewRunNumber "
         "cancels without storing anything; every SetRuntimeVar of leave_/enter_/after_ callbacks happens between the two hook phases; in "
         "after_event the run number is zeroed only after the non-negative hooks ran.",
         "Not yet obligations: the 'only if still empty' guards that make the end timestamps set-at-most-once, the teardown-while-RUNNING end time, and the "
         "closed-world frame over every writer of the four variables. Hooks (plugins/tasks) overwriting the variables and clock steps are outside.",
         "DESIGN.md §6 C10"),
 "C02": ("Proof obligations on the chain per-target outcome -> task-manager error -> transition error -> API error: CommandQueue.commit files a "
         "response for every target, built from the send error for an unreachable one; workflow.GetActiveTasks selects on status ACTIVE alone "
         "and Tasks.Filtered is complete (every accepted task is commanded); in transitionTasks and configureTasks a multi-target response yields "
         "an error exactly when a critical target failed (loop invariant len(taskCriticalErrors) == number of critical errors), a single-target "
         "response fails the transition only if that one task is critical, and nothing to command succeeds at once without enqueuing or waiting "
         "(ConfigureTransition.do waits for the task manager only when it asked); handlerFunc runs the transition body only for an event not yet "
         "cancelled and cancels the event on its error; leave_<state> reaches the task transition only after both hook phases without a hook "
         "error; RpcServer.ControlEnvironment answers a failed transition with an error whatever becomes of the GO_ERROR that follows. Three "
         "genuine defects were found here and repaired by fix: commits (API error swallowed by a successful GO_ERROR; nothing to command failing "
         "or hanging; a single non-critical target failing the transition).",
         "Not under contract: the START/STOP/RESET Transition.do bodies beyond their message, the DEPLOY wait loop, executors, Mesos delivery, "
         "real timeouts. The command queue's answer is an unconstrained value at the task manager (its shape is proved in controlcommands).",
         "DESIGN.md §6 C02"),
 "C04": ("Proof obligations: Task.isLocked/IsLocked/IsClaimable are the ownership predicate (all ids set and a parent role); releaseTask refuses "
         "a task owned by another environment leaving it untouched, otherwise clears the owner, and writes nothing but that task's parent link "
         "(frame obligation); the filters of Cleanup and KillTasks accept only unowned tasks and exactly the filtered list reaches doKillTasks; "
         "Tasks.Filtered returns only accepted elements of its input (loop invariants over a ghost verdict map); CreateEnvironment registers the "
         "environment only when every needed detector is absent from the detectors active elsewhere (map-range loop invariant, proved at the "
         "insertion site); Manager.GetActiveDetectors is the union over every environment with a workflow, whatever its state; doKillTasks prunes the "
         "roster by identity against the requested set only; acquireTasks claims an existing task at most once per request and releases its "
         "deployment lock exactly when it took it (a genuine defect - unlock of an unlocked mutex, a fatal error that ends the control of every "
         "other environment - repaired by a fix: commit).",
         "Time-of-check/time-of-use between filter and kill, and between the detector query and the registration of two concurrent creations, are "
         "schedule questions this technique does not decide. acquireTasks' claiming logic and doKillTasks' roster arithmetic are not yet under "
         "contract. GetActiveDetectors results assumed fresh maps; parentRole.GetEnvironmentId an uninterpreted function of the role.",
         "DESIGN.md §6 C04"),
 "C03": ("Proof obligations on every sequential link of the chain, for all paths: a terminal Mesos status (LOST/KILLED/FAILED/ERROR) of an owned "
         "task spawns updateTaskState(id, ERROR) (handleMessage); updateTaskState stores the state of a rostered task and hands it to its role; "
         "HandleExecutorFailed / HandleAgentFailed spawn exactly one ERROR+INACTIVE update per task of the failed executor/agent (loop invariant); "
         "taskRole / callRole.updateState merge the state and forward it - the same state - to the parent iff the role is critical (so a non-"
         "critical failure never reaches the environment); aggregatorRole.updateState forwards its own new state after the merge (whose contract, "
         "C11, makes ERROR dominate); the watcher closure asks for GO_ERROR and forces ERROR when that is refused and the state is not ERROR yet.",
         "Delivery between goroutines (the non-blocking hand-off from the role tree to the watcher can drop a notification), the 500 ms delay, "
         "'within bounded time', races with a transition in flight and handleDeviceEvent's TASK_INTERNAL_ERROR branch are not decided. "
         "Traits.Critical assumed immutable after workflow load. The precondition of aggregatorRole.updateState (fold factorisation) is assumed "
         "at its call sites.",
         "DESIGN.md §6 C03"),
 "C18": ("Narrow claim, three code facts proved for all paths: (1) handleMessage issues a Mesos KILL on a reconciliation answer only for a task "
         "that is not in the roster or not owned (a genuine defect - every reconciliation answer was killed - was found by this obligation and "
         "repaired by a fix: commit); (2) NewManager reads aliecs/mesos_fid and seeds the framework-id store before NewScheduler is called, and "
         "the store's setter writes every new id back under the same key; (3) the SUBSCRIBED handler chain contains subscription tracking on that "
         "store and reconciliationCall, which sends an implicit (empty) reconcile.",
         "NOT decided by this technique: crash points in the life of an environment, Mesos' answers and their order after a restart, that every "
         "surviving task is actually reported by Mesos. These parts of the statement are histories of an external system.",
         "DESIGN.md §6 C18"),
 "C06": ("Proof obligations on the sequential skeleton, for all paths: TeardownEnvironment sends the first release request and receives its answer "
         "before any DESTROY hook call or hook task is triggered, sends a second release request carrying the DESTROY hook tasks of EVERY weight, collected before any status filter (a genuine defect "
         "found here - only the active hook tasks of the last weight were released - repaired by a fix: commit), cancels the never-awaited calls, "
         "sets DONE (under the transition lock) only after both rounds were answered, removes the environment from the listing only after DONE, and "
         "returns an error whenever DONE was not reached (no half-removal); doTeardownAndCleanup retries a failed teardown once with force, answers a "
         "forced failure with a non-OK gRPC status, requests the kill of the workflow's tasks unless keepTasks is set, and never when it is.",
         "The rendezvous through pendingTeardownsCh and the event loop, Mesos kill acknowledgements and everything timing-related are abstracted (a "
         "receive yields an arbitrary value and havocs the heap). releaseTasks asks releaseTask for every task of the list and reports once; releaseTask clears the owner unless another environment "
         "holds the task. Not obligations: cancelCallsPendingAwait's loops, the failure tail of CreateEnvironment. grpc status: New(code).Err() != nil for code != OK is an assumed contract.",
         "DESIGN.md §6 C06"),
 "C12": ("Proof obligations for all paths: Servent.ProcessResponse looks up and deletes exactly the pending entry keyed by (the reply's command id, "
         "its sender), writes the reply only into the call found there and signals only a found call - unknown, late or duplicate replies touch "
         "nothing; Servent.RunCommand registers exactly (command id, receiver) before calling SendFunc with this command and receiver, and removes "
         "exactly that key on a send error (returning the error and no response) and on timeout; CommandQueue.commit spawns one goroutine per target "
         "(loop invariant), each of which makes the single-target copy for ITS receiver, runs it once and posts exactly one result carrying ITS "
         "receiver (goroutine frame obligations: no shared write), and the collector receives as many results as goroutines and files each under the "
         "receiver it carries; consolidateResponses returns nil / the single answer / a multi-response over exactly the collected map.",
         "'Exactly once within its timeout' as a real-time statement, the race between a timeout and a late reply (Done signalled after the waiter "
         "left), and queue start/stop are not decided. MakeSingleTarget's per-target argument selection is not yet under contract. Command ids and "
         "target lists are uninterpreted functions of the message (interface methods assumed deterministic).",
         "DESIGN.md §6 C12"),
 "C13": ("Proof obligations: TcpEndpoint / IpcEndpoint.ToTargetEndpoint keep port / path and transport and set the host, ToBoundEndpoint binds "
         "on '*', GetTransport is the field (field-wise postconditions); Outbound.ToFMQMap passes an explicit tcp:// or ipc:// target through with the "
         "channel's own transport, otherwise takes address AND transport from the endpoint registered under exactly the target's name (map-range "
         "loop invariant: no visited key equals the target), and fails when nothing matches; Inbound.ToFMQMap binds the endpoint registered under "
         "its own name in bound form and rejects any other non-empty target; configureTasks registers every local endpoint with the task's host "
         "substituted and hands exactly that map on; BuildPropertyMap configures inbound channels from the task's own bind map, outbound ones from "
         "the environment-wide map, and an unresolved outbound channel aborts with an error.",
         "Endpoint interface methods assumed pure (deterministic functions of the endpoint value). Not yet under contract: the property-map keys "
         "written by buildFMQMap, the global-alias deduplication branch, MergeInbound/MergeOutbound and CollectInbound/OutboundChannels, and the port "
         "allocation in makeTaskForMesosResources. Template evaluation of targets and FairMQ's reading of the properties are outside.",
         "DESIGN.md §6 C13"),
 "C19": ("Proof obligations: FifoBuffer (verified on the generic body, element type abstract): Push appends at the end leaving the prefix intact and "
         "writing nothing but its own buffer field (frame); PopMultiple returns at most n elements always, and for a non-empty buffer exactly the "
         "first min(n, len) elements in order, leaving the remainder in order; Length is the length. writingLoop pops batches of at most 100 and "
         "declares itself finished only after it saw the buffer empty after the done signal (flush on shutdown - a genuine defect found here and "
         "repaired by a fix: commit); writeBatch hands a non-empty batch to the broker exactly once; batchingLoop pushes every received message "
         "before receiving the next and signals done after its last push; internalEventToKafkaEvent keys role, environment, call, integrated-"
         "service and run events by their environment id and task events by their task id, and gives no key to other events.",
         "Multi-producer interleavings, lost wake-ups of the condition variable, what happens across a Wait (stated as a precondition: the sequential "
         "core), producers blocking when the 10 000-slot channel is full, and 'without the producers ever waiting for the broker' are schedule / "
         "liveness questions not decided. math.Min over exact conversions, sync.Cond/Locker as no-ops on data, proto getters executed symbolically.",
         "DESIGN.md §6 C19"),
 "C14": ("Proof obligations: what a gera hierarchy defines is a recursive heap function (flatHas/flatVal: own entry if present, whatever its value, "
         "else what the parent hierarchy defines), fuel-encoded; WrapMap.Get/Has, Flattened, FlattenedParent, WrappedAndFlattened (verified on the "
         "generic bodies, K and V abstract) are each proved equal to one unfolding of it, for chains of any depth, with Set/Del/Wrap/Unwrap framed to "
         "the one key / the parent link; roleBase.ConsolidatedVarStack = user vars over vars over defaults, each flattened; VarStack.consolidated = the "
         "stage visibility table (own defaults from STAGE2, own vars from STAGE3, own user vars from STAGE4, locals always on top); setParent of every "
         "role kind links the three hierarchies kind by kind to the parent's getters, and an include role keeps its own level between the included "
         "subworkflow and its ancestors; the environment's adapter hands out GlobalDefaults/GlobalVars/"
         "UserVars as outermost ancestors; Task.BuildTaskCommand/BuildPropertyMap keep the workflow stack as the winning level over class vars over "
         "class defaults (a genuine defect found here - class defaults beating class vars in the task command - repaired by a fix: commit).",
         "mergo.Merge(&dst, src, WithOverride) on two maps is assumed to be map union with src winning (site assumption, listed); a frame axiom for "
         "the heap-dependent ghost functions (entry-allocated arguments, heaps agreeing on entry-allocated objects) is a meta-theorem of the memory "
         "model, assumed; the setParent links are stated for roles whose three maps are distinct objects; an included subworkflow's attachment to the include "
         "role is a rely on the loader function value, matched by the loader closure's own contract; the composition of the links through function "
         "values (ParentAdapter getters) and the template substitution that consumes the stacks are outside the contracts.",
         "DESIGN.md §6 C14"),
 "C17": ("NARROW. Proof obligations on the sequential code the property rests on: ensureBasicTaskKilled never dereferences a nil ProcessState/Process "
         "(child running, gone or never started - a genuine defect found here, repaired by a fix: commit), records KILLED for the reaper and sends "
         "SIGKILL to the negative pid (the whole process group) exactly once; the basic task's transition function maps START/STOP onto start/kill; "
         "the basic task reaper reports the child's end once, with the pending final state if a kill left one, else FAILED iff Wait failed, else "
         "FINISHED; ControllableTask.Kill: the walk towards DONE terminates (decreases rank(reachedState), using the transitioner contract of C16 "
         "through the commit goroutine's guarantee), exactly one final state is left for the reaper - FINISHED iff DONE was reached, KILLED "
         "otherwise, never FAILED -, the control channel is used only when it exists (a second genuine defect, repaired), and the process is "
         "signalled via doTermIntKill unless already gone; every child is started with Setpgid (so that the negative pid reaches a group); a "
         "TriggerHook is served only on the hook task it was addressed to; doTermIntKill is loop-free (bounded by its three constant waits), sends TERM then INT "
         "to that pid and returns only after the process was seen gone or SIGKILL was sent.",
         "'At most one terminal status' across the reaper and a concurrent kill, process groups actually dying, hangs on the one-slot "
         "pendingFinalTaskStateCh under repeated kills, and every race between Kill, the Launch goroutine and the reaper are schedule / OS questions "
         "this family does not decide (a KILL that arrives while a controllable task is still starting no longer crashes the executor but the "
         "child it races with is not signalled: observed, not decided). Assumed: the rely on the value received from the commit goroutine "
         "(guaranteed by that goroutine's own contract), the interface-level transitioner contract, immutability of a transition command's "
         "event/source/destination, os/exec and syscall behaviour.",
         "DESIGN.md §6 C17"),
 "C15": ("Proof obligations on the structure-building code: iteratorRangeFor.GetRange yields the decimal numbers begin..end in order (empty when "
         "end < begin); expandTemplate generates the j-th child from locals {var: ran[j]} and puts it at position j (sequentially by append, "
         "concurrently into slot j), installs as many children as the range has elements, and a failing generation ends the expansion with an "
         "error; iteratorRole/aggregatorRole.ProcessTemplates: expansion/own-template errors other than 'role disabled' end the load, a disabled "
         "aggregator drops its children before anything is processed for them, every child is attached to its parent before being processed, "
         "sequentially the first failing child ends the load with its error, the filter keeps exactly the children found enabled, appended in "
         "order, and an aggregator left empty disables itself; the stage callback turns a disabled role after STAGE0 into RoleDisabledError; "
         "goroutine frame obligations for the three concurrent branches: each goroutine writes its own slot only and the shared error only under "
         "a lock (a genuine defect found here - a failing child's error overwritten by a sibling's nil, the load succeeding with a partial "
         "tree - repaired by a fix: commit); roleBase.copy (what an iterator makes per element) owns its channel declarations and constraints.",
         "NOT APPLICABLE PART: 'the same workflow template with the same variables always yields the same role tree' as far as it depends on "
         "YAML decoding (reflection) and on the template/expression engine (third-party VM): determinism of those, and the values they "
         "substitute, are outside any contract here. In the concurrent branches 'an error in any child fails the load' is decided per goroutine "
         "(a failing child files its error under the lock) but the multierror library's ErrorOrNil is not modelled. For iteratorRangeExpr (JSON "
         "range) only 'a template error fails the load' is under contract, the decoding is not. strconv.Atoi/Itoa and viper getters are assumed.",
         "DESIGN.md §6 C15"),
}

# clauses added after the third and fourth held-out batches (DESIGN.md §10.4), appended to the level text of the property
EXTRA = {
 "C02": " Tasks.GetMesosCommandTargets: every task of the list becomes a command target (an unlocked task yields an error, it is not skipped). configureTasks swallows the error of a plain (single-target) response only after the task was asked about and found non-critical; FairMQ.doReset's error contract is charged to this property too (an executor answers with an error whenever the task did not reach the expected state).",
 "C03": " handleDeviceEvent resolves the environment of an internal error from the task's parent role (the one that owns it); HandleAgentFailed reaches every task on the lost agent (loop invariant). TeardownEnvironment removes the workflow-state watcher only together with the environment (never from a defer, never before the environment left the listing); the Mesos UPDATE handler forwards every status update to the task manager exactly once.",
 "C05": " resourceOffers: an offer that was taken off the decline list is answered with ACCEPT, also when no task could be assembled on it. roleBase.getConstraints merges with the role's own constraints as receiver and the enclosing roles' as parent; both matching loops of resourceOffers compare wants with what is LEFT of the offer.",
 "C06": " acquireTasks: when a deployment is given up every task launched for it is un-parented before it is reported as deployed-but-unused. doKillTasks sends a KILL for every ACTIVE task of its list, in order, whatever the outcome of the earlier ones (loop invariant).",
 "C08": " callRole.GetHooksMapForTrigger hands out a fresh Call per lookup (a pending execution is never overwritten by a restart). both weight passes (negative, non-negative) of a moment call handleHooks exactly once whatever hooks exist; TeardownEnvironment cancels pending calls only after its own leave_ and DESTROY hooks.",
 "C09": " (*Call).Call: a hook expression that cannot be evaluated, or whose execution fails, makes the call return a non-nil error. callRole.copy keeps the Traits (critical, trigger, await, timeout) of the original.",
 "C12": " commit builds the placeholder error response of an unanswered target for that target (not reused across targets). the queue worker of CommandQueue.Start hands every committed command's result to its caller with a blocking send of exactly what commit returned, before the next entry is taken.",
 "C13": " roleBase.copy: the copy's Connect slice has its own backing array (append is modelled with in-place growth, so re-slicing the source is caught). GetWantsForDescriptor merges inbound channels with the role-level declarations outranking the task class's. The channel field setters handed to the template engine write the role's own Bind/Connect entries.",
 "C17": " pidExists probes a process group (negative pid) through its leader instead of answering from the sign.",
 "C18": " BuildFrameworkInfo announces the failover timeout whenever one is configured (mesos-go re-subscribes under the stored framework id only then). the Mesos UPDATE handler forwards every status update (also about tasks not in the roster) to the task manager.",
 "C19": " ClearEventWriters calls Close on every registered writer before the registry is cleared (map range with visited-set invariant; clear() modelled).",
 "C20": " YamlSource.Exists reports an error only if the store cannot be read or an array index is malformed; a path that runs into a plain value is 'absent'. The HTTP resolve route hands the resolver the URL remainder minus the '/resolve' suffix (strings.TrimSuffix as a trusted spec function).",
 "C01": " TeardownEnvironment refuses an environment it finds in DONE whatever `force` says (nothing is sent, no hook runs).",
 "C07": " NewRunNumber's file backend parses exactly the content of the counter file (a blank or damaged file is an error, not a restart from 1).",
 "C10": " StopActivityTransition.do never writes the run number.",
 "C11": " callRole.updateStatus merges and forwards every status update to the parent whatever the role's criticality.",
 "C14": " roleBase.copy gives the copy its own Defaults/Vars/UserVars maps; a `!public` entry that decodes is stored whatever its value (an empty value is a definition).",
 "C15": " roleBase.copy's own-backing-array clauses are charged to this property too; iteratorRole.ProcessTemplates prunes disabled generated roles on every successful load.",
}

NOT_APPLICABLE = {
}

PENDING_REASON = "check under construction in this session: contracts not yet written (DESIGN.md §6 describes the planned obligations); not claimed until its obligations discharge on the unchanged tree"

def main():
    props = [json.loads(l) for l in open('/verif/properties.jsonl')]
    try:
        hooks = subprocess.check_output(['git', '-C', '/repo', 'log', '--format=%H %s'], text=True).splitlines()
    except Exception:
        hooks = []
    hook_commits = [l.split()[0] for l in hooks if ' verif-hook:' in l or l.split(' ', 1)[1].startswith('verif-hook:')]
    m = {
        "version": 1,
        "setup_cmd": "cd /verif/govc && GOFLAGS=-mod=mod GOPROXY=off GOSUMDB=off GOTOOLCHAIN=local go build -o /verif/bin/govc ./cmd/govc",
        "hooks": {
            "guard": "verif",
            "enable": "go build/test -tags verif; the only hook files are <pkg>/contracts_verif.go: package clause + //@ contract comments, "
                      "guarded by //go:build verif, read by /verif/govc (never compiled into the product)",
            "baseline_off_cmd": "for m in $(cat /w/out/gomods.txt); do MF=$(cd /repo/$m && . /w/out/goenv.sh && gomodflag); (cd /repo/$m && go test $MF -json -vet=off -count=1 -timeout 25m ./...); done",
            "source_commits": hook_commits,
            "add_only": True,
        },
        "engines": [{
            "name": "govc", "path": "/verif/govc", "serves_properties": sorted(CLAIMED),
            "kind_free_text": "contract-based deductive verifier for Go written for this task: VC generation over go/ssa of the real source "
                              "(Floyd-Hoare loop cuts, heap as per-field arrays, callee contracts at call sites, ghost state and site clauses), "
                              "contracts as //@ comments in build-tag-guarded files inside /repo, obligations discharged by a z3 5.1.0 / cvc5 1.0 / z3 4.8.12 race",
        }],
        "checks": [],
        "not_applicable": [],
        "notes": "All checks rebuild the SSA from /repo's working tree on every run. known_findings.txt lists genuine defects found; see DESIGN.md.",
    }
    for p in props:
        pid = p['id']
        if pid in CLAIMED:
            text, note, ref = CLAIMED[pid]
            text += EXTRA.get(pid, "")
            m["checks"].append({
                "property_id": pid,
                "quick_cmd": f"./check {pid} quick",
                "thorough_cmd": f"./check {pid} thorough",
                "evidence_file": f"/verif/evidence/{pid}.json",
                "replay_cmd_template": "./check --replay {path}",
                "engine": "govc",
                "level_claimed": {"category": "proof", "text": text, "design_ref": ref},
                "level_note": note,
                "technique": TECH,
            })
        else:
            m["not_applicable"].append({"property_id": pid, "reason": NOT_APPLICABLE.get(pid, PENDING_REASON)})
    json.dump(m, open('/verif/MANIFEST.json', 'w'), indent=1)
    print("claimed:", sorted(CLAIMED), "not_applicable:", [x['property_id'] for x in m['not_applicable']])

main()
