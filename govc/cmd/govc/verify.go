package main

import (
	"fmt"
	"go/types"
	"sort"
	"strings"

	"golang.org/x/tools/go/ssa"
)

func (g *Gen) newVC(name string, fn *ssa.Function, fc *FuncContract) *VC {
	d := newDecls()
	d.strUF = g.strUF
	if fc != nil && fc.Opts["strings"] == "uf" {
		d.strUF = true
	}
	d.heapSort["$alloc"] = "Int"
	vc := &VC{g: g, d: d, fn: fn, c: fc, name: name, cdecl: map[string]bool{}, notes: map[string]bool{}, ghostT: map[string]types.Type{},
		strLits: map[string]bool{}, ghostDefs: map[string]*ghostDef{}, heapsRead: map[string]bool{}, pureDefs: map[string]bool{}, definingRec: map[string]bool{}, immutable: map[string]bool{}}
	for _, im := range g.immutables {
		p := g.byPath[im[0]]
		if p == nil {
			continue
		}
		tn, ok := p.Types.Scope().Lookup(im[1]).(*types.TypeName)
		if !ok {
			continue
		}
		st, ok := tn.Type().Underlying().(*types.Struct)
		if !ok {
			continue
		}
		for i := 0; i < st.NumFields(); i++ {
			if st.Field(i).Name() == im[2] {
				if _, isS := isStructT(st.Field(i).Type()); !isS {
					vc.immutable[d.fieldHeap(tn.Type(), i)] = true
				}
			}
		}
	}
	return vc
}

// verifyFunc generates all obligations for one function under contract.
func (g *Gen) verifyFunc(fc *FuncContract) (*VC, error) {
	fn := g.fnOf[fc]
	if fn == nil {
		return nil, fmt.Errorf("contract anchor not found: no SSA body for %s", fc.Key)
	}
	name := shortKey(fc.Key)
	if fc.Closure != "" {
		// closures are named by their structural role, not by go/ssa's ordinal, so unrelated edits do not rename obligations
		name = "closure " + strings.Join(strings.Fields(fc.Closure), " ")
	}
	vc := g.newVC(name, fn, fc)
	vc.curProps = fc.Props
	fr := vc.newFrame(fn, nil)
	fr.alias = renamedLocals(fn, g.recordedLocals[fn.String()])
	for cur, old := range fr.alias {
		vc.note("local variable %s of %s was named %s when the contract was locked: bound under both names (definition fingerprints match uniquely)", cur, shortKey(fn.String()), old)
	}
	fr.top = true
	fr.c = fc
	st := &State{m: map[string]string{}}
	vc.declare("$alloc@0", "Int")
	st.m["$alloc"] = "$alloc@0"
	vc.axiom("(> $alloc@0 0)")
	pc := "true"
	env := vc.newEnv(fc.PkgPath, st)
	sig := g.sigOf(fc)
	// parameters
	if len(fn.Params) != len(sig.params) {
		return vc, fmt.Errorf("%s: parameter count mismatch between contract and SSA", fc.Key)
	}
	for i, p := range fn.Params {
		n := sym("in." + p.Name())
		if vc.d.sortOf(p.Type()) == "Slice" && fc.Opts["slice-offsets"] != "general" {
			// WLOG: a slice parameter starts at offset 0 of its backing array (a slice is only a view; code that accesses
			// it through the slice cannot observe the offset). Keeps index terms free of arithmetic, which matters for
			// quantifier instantiation. Listed as an assumption.
			a, l, c := sym("in."+p.Name()+".arr"), sym("in."+p.Name()+".len"), sym("in."+p.Name()+".cap")
			vc.declare(a, "Int")
			vc.declare(l, "Int")
			vc.declare(c, "Int")
			n = fmt.Sprintf("(mk-slice %s 0 %s %s)", a, l, c)
			vc.note("slice parameters modelled at offset 0 of their backing array (WLOG; overlapping views at different offsets not modelled)")
		} else {
			vc.declare(n, vc.d.sortOf(p.Type()))
		}
		fr.vals[p] = []string{n}
		pc = and(pc, vc.typeAssume(n, p.Type(), st))
		if isRefLike(p.Type()) {
			pc = and(pc, fmt.Sprintf("(< %s $alloc@0)", n))
		}
		env.vars[sig.params[i].name] = tv{t: n, ty: p.Type()}
	}
	for _, fv := range fn.FreeVars {
		n := sym("in.fv." + fv.Name())
		vc.declare(n, vc.d.sortOf(fv.Type()))
		fr.freeVals[fv] = []string{n}
		if isRefLike(fv.Type()) {
			pc = and(pc, fmt.Sprintf("(and (< %s $alloc@0) (> %s 0))", n, n))
		}
		pc = and(pc, vc.typeAssume(n, fv.Type(), st))
	}
	// ghost variables
	for _, gv := range fc.Ghosts {
		ty, err := env.resolveType(gv.T)
		if err != nil {
			return vc, fmt.Errorf("%s: ghostvar %s: %v", fc.Key, gv.Name, err)
		}
		vc.ghostT[gv.Name] = ty
		vc.d.heapSort["$g."+gv.Name] = vc.d.sortOf(ty)
		var init string
		if id, ok := gv.Init.(*EIdent); ok && id.Name == "empty" {
			gm, ok := ty.(*ghostMap)
			if !ok {
				return vc, fmt.Errorf("%s: ghostvar %s: 'empty' needs a map type", fc.Key, gv.Name)
			}
			init = vc.d.constArray(vc.d.sortOf(gm.key), vc.d.sortOf(gm.val), vc.d.zero(gm.val))
		} else if _, isNil := gv.Init.(*ENil); isNil {
			init = vc.d.zero(ty)
		} else {
			fr.bindParams(env)
			t, err := env.expr(gv.Init)
			if err != nil {
				return vc, fmt.Errorf("%s: ghostvar %s: %v", fc.Key, gv.Name, err)
			}
			init = t.t
		}
		vc.stSet(st, "$g."+gv.Name, init)
	}
	fr.bindParams(env)
	env.old = st.clone()
	vc.entrySt = st.clone()
	for _, r := range fc.Requires {
		t, err := env.assumeExpr(r.E)
		if err != nil {
			return vc, fmt.Errorf("%s: requires %s: %v", fc.Key, r.Name, err)
		}
		pc = and(pc, t)
	}
	if gl := fc.Opts["init-globals"]; gl != "" {
		if err := fr.runGlobalInit(strings.Split(gl, ","), st); err != nil {
			return vc, fmt.Errorf("%s: %v", fc.Key, err)
		}
		for _, glob := range fr.initGlobals {
			ws := g.globalWriters(glob)
			goal := "true"
			if len(ws) > 0 {
				goal = "false"
			}
			vc.addObl(&Obligation{Name: "frame:global:" + glob.Name(), Kind: "frame", PC: "true", Goal: goal,
				Src: fmt.Sprintf("no function other than the package initialiser writes %s or a map/slice of its type; writers found: %v", glob.Name(), ws)})
		}
		env.old = st.clone()
		vc.entrySt = st.clone()
	}
	for _, u := range fc.Uses {
		lm := g.findLemma(fc.PkgPath, u)
		if lm == nil {
			return vc, fmt.Errorf("%s: uses unknown lemma %s", fc.Key, u)
		}
		t, err := env.boolExpr(lm.E)
		if err != nil {
			return vc, fmt.Errorf("%s: lemma %s: %v", fc.Key, u, err)
		}
		pc = and(pc, t)
		vc.note("lemma %s assumed at entry of %s (proved separately as obligation lemma:%s)", u, shortKey(fc.Key), u)
	}
	if fc.HasMod && !fc.ModAll {
		vc.frameOn = true
		vc.frameTg = map[string][]modTarget{}
		for _, m := range fc.Modifies {
			tg, err := env.modTargets(m)
			if err != nil {
				return vc, fmt.Errorf("%s: modifies: %v", fc.Key, err)
			}
			for _, t := range tg {
				vc.frameTg[t.heap] = append(vc.frameTg[t.heap], t)
			}
		}
	}
	if fc.GoFrames {
		g.goFrameObligations(vc, fn)
	}
	for _, lit := range fc.Literals {
		got, err := literalTable(fn, lit[0])
		goal := "true"
		src := fmt.Sprintf("composite literal of type %s is exactly the documented table", lit[0])
		if err != nil {
			goal = "false"
			src += ": " + err.Error()
		} else if got != lit[1] {
			goal = "false"
			src += fmt.Sprintf(": found %q, expected %q", got, lit[1])
		}
		vc.addObl(&Obligation{Name: "literal:" + lit[0], Kind: "structural", PC: "true", Goal: goal, Src: src})
	}
	pc = vc.define("entrypc", "Bool", pc)
	entryPC := pc
	// cover: precondition satisfiable
	vc.addObl(&Obligation{Name: "cover:requires", Kind: "cover", PC: entryPC, Goal: "false", WantSat: true, Src: "precondition is satisfiable"})

	rpc, rst, res := fr.run(pc, st)
	if vc.failed != nil {
		return vc, vc.failed
	}
	// postconditions, checked at every return point separately (small queries; the failing return is named)
	_ = rst
	_ = res
	for ri, rp := range fr.rets {
		penv := vc.newEnv(fc.PkgPath, rp.st)
		penv.old = vc.entrySt
		for i, p := range fn.Params {
			penv.vars[sig.params[i].name] = tv{t: fr.vals[p][0], ty: p.Type()}
		}
		for _, fv := range fn.FreeVars {
			if _, ok := fv.Type().Underlying().(*types.Pointer); ok {
				penv.lazy[fv.Name()] = fr.locOf(fv)
			} else {
				penv.vars[fv.Name()] = tv{t: fr.v1(fv), ty: fv.Type()}
			}
		}
		for gname, gt := range vc.ghostT {
			penv.vars[gname] = tv{t: vc.stGet0(rp.st, "$g."+gname), ty: gt}
		}
		for i, r := range sig.results {
			if i < len(rp.vals) {
				t := tv{t: rp.vals[i][0], ty: r.ty}
				penv.vars[r.name] = t
				penv.vars[fmt.Sprintf("result%d", i)] = t
				if i == 0 {
					penv.vars["result"] = t
				}
			}
		}
		suffix := ""
		if len(fr.rets) > 1 {
			suffix = fmt.Sprintf("@ret%d", ri+1)
		}
		if len(fc.Ensures) > 0 {
			// vacuity guard: this return must not be provably unreachable (an unreachable return proves any postcondition)
			vc.addObl(&Obligation{Name: "cover:reach" + suffix, Kind: "cover", PC: rp.pc, Goal: "false", WantSat: true,
				Src: "the return at " + strings.TrimPrefix(rp.pos, "/repo/") + " is not provably unreachable under the precondition, invariants and assumed contracts"})
		}
		for _, e := range fc.Ensures {
			t, err := penv.boolExpr(e.E)
			if err != nil {
				return vc, fmt.Errorf("%s: ensures %s: %v", fc.Key, e.Name, err)
			}
			var pts []string
			for _, prm := range fn.Params {
				pts = append(pts, fr.v1(prm))
			}
			vc.addObl(&Obligation{Name: e.Name + suffix, Kind: "ensures", PC: rp.pc, Goal: t, Src: e.Src, fc: fc, clause: e.E, paramTerms: pts})
		}
		if fc.HasMod && !fc.ModAll {
			if err := vc.frameObligations(fr, fc, penv, rp.pc, rp.st, suffix); err != nil {
				return vc, err
			}
		}
	}
	if len(fr.rets) > 0 {
		vc.addObl(&Obligation{Name: "cover:return", Kind: "cover", PC: rpc, Goal: "false", WantSat: true, Src: "a return is reachable under the precondition and the assumed callee contracts"})
	}
	return vc, nil
}

// frameObligations: everything outside the modifies set is unchanged for objects that existed at entry.
func (vc *VC) frameObligations(fr *Frame, fc *FuncContract, penv *SpecEnv, rpc string, rst *State, suffix string) error {
	var names []string
	for k := range rst.m {
		if strings.HasPrefix(k, "$") {
			continue
		}
		names = append(names, k)
	}
	sort.Strings(names)
	if rst.havocked() {
		vc.addObl(&Obligation{Name: "modifies:*" + suffix, Kind: "modifies", PC: rpc, Goal: "false", Src: "function havocs the whole heap (call without frame) but declares a modifies clause"})
		return nil
	}
	for _, h := range names {
		if g := vc.frameGoal(h, rst.m[h]); g != "" {
			vc.addObl(&Obligation{Name: "modifies:" + h + suffix, Kind: "modifies", PC: rpc, Goal: g, Src: "frame: " + h + " unchanged outside the modifies set"})
		}
	}
	return nil
}

// loopEnv builds the environment in which a loop invariant is evaluated.
func (fr *Frame) loopEnv(li *loopInfo, st *State) *SpecEnv {
	vc := fr.vc
	base := fr
	if fr.extracted {
		// a loop that was moved into a new function: the invariant was written over the text of the function under verification
		base = fr.topFrame()
	}
	pkgPath := ""
	if base.c != nil {
		pkgPath = base.c.PkgPath
	}
	env := vc.newEnv(pkgPath, st)
	env.old = base.entry
	base.bindParams(env)
	if base.c != nil {
		if sig := vc.g.sigOf(base.c); sig != nil {
			for i, p := range base.fn.Params {
				if i < len(sig.params) {
					env.vars[sig.params[i].name] = tv{t: base.v1(p), ty: p.Type()}
				}
			}
		}
	}
	own := map[string]bool{}
	if fr.extracted {
		own = fr.bindOwn(env)
	}
	for g, gt := range vc.ghostT {
		env.vars[g] = tv{t: vc.stGet0(st, "$g."+g), ty: gt}
	}
	// variables that live in a cell (address taken / captured by a closure): their current value is the cell's content,
	// never some earlier load of it
	cellVar := map[string]bool{}
	for _, b := range fr.fn.Blocks {
		for _, ins := range b.Instrs {
			if a, ok := ins.(*ssa.Alloc); ok && a.Comment != "" {
				if _, isLoc := fr.locs[a]; isLoc {
					cellVar[a.Comment] = true
				} else if _, seen := fr.vals[a]; seen {
					cellVar[a.Comment] = true
				}
			}
		}
	}
	// named locals visible at the header (via debug refs), excluding those redefined inside the loop
	for name, v := range fr.namedValuesAt(li) {
		if cellVar[name] {
			continue
		}
		if _, shadow := env.vars[name]; !shadow || (fr.extracted && !own[name]) {
			env.vars[name] = tv{t: fr.v1(v), ty: v.Type()}
			delete(env.lazy, name)
			own[name] = true
		}
		if old, ok := fr.alias[name]; ok {
			if _, shadow := env.vars[old]; !shadow || (fr.extracted && !own[old]) {
				env.vars[old] = tv{t: fr.v1(v), ty: v.Type()}
				delete(env.lazy, old)
				own[old] = true
			}
		}
	}
	// address-taken locals (private allocs) by variable name
	for a := range fr.privAlloc {
		if a.Comment != "" {
			if l, ok := fr.locs[a]; ok {
				if _, shadow := env.vars[a.Comment]; !shadow {
					env.lazy[a.Comment] = l
				}
				if old, ok := fr.alias[a.Comment]; ok {
					if _, shadow := env.vars[old]; !shadow {
						env.lazy[old] = l
					}
				}
			}
		}
	}
	// enclosing and own header phis by variable name
	for _, l := range fr.loops {
		if l != li && !l.blocks[li.header] {
			continue
		}
		for _, phi := range l.phis {
			c := phi.Comment
			if c == "rangeindex" {
				if l == li {
					env.hash["i"] = tv{t: fr.v1(phi), ty: tInt}
				}
				env.hash[fmt.Sprintf("i%d", l.ordinal)] = tv{t: fr.v1(phi), ty: tInt}
				continue
			}
			if c != "" {
				env.vars[c] = tv{t: fr.v1(phi), ty: phi.Type()}
				own[c] = true
				if old, ok := fr.alias[c]; ok {
					env.vars[old] = tv{t: fr.v1(phi), ty: phi.Type()}
					own[old] = true
				}
			}
		}
	}
	fr.callerNames(env, own)
	// map iterators: #visited = the visited-set of the map range advanced by THIS loop
	var its []ssa.Value
	for it := range fr.iterVis {
		for b := range li.blocks {
			for _, ins := range b.Instrs {
				if nx, ok := ins.(*ssa.Next); ok && nx.Iter == it && nx.Block() == li.header {
					its = append(its, it)
				}
			}
		}
	}
	if len(its) == 1 {
		rng := its[0].(*ssa.Range)
		mt := rng.X.Type().Underlying().(*types.Map)
		env.hash["visited"] = tv{t: vc.stGet0(st, fr.iterVis[its[0]]), ty: &ghostMap{mt.Key(), tBool}}
	}
	// #visitedN: the visited-set of the map range advanced by the ENCLOSING (or own) loop N
	for _, l := range fr.loops {
		if l != li && !l.blocks[li.header] {
			continue
		}
		for _, ins := range l.header.Instrs {
			if nx, ok := ins.(*ssa.Next); ok {
				if key, isMap := fr.iterVis[nx.Iter]; isMap {
					if rng, ok := nx.Iter.(*ssa.Range); ok {
						mt := rng.X.Type().Underlying().(*types.Map)
						env.hash[fmt.Sprintf("visited%d", l.ordinal)] = tv{t: vc.stGet0(st, key), ty: &ghostMap{mt.Key(), tBool}}
					}
				}
			}
		}
	}
	return env
}

// namedValuesAt: source-level names -> SSA value for variables with a single definition dominating the loop header.
func (fr *Frame) namedValuesAt(li *loopInfo) map[string]ssa.Value {
	cands := map[string]map[ssa.Value]bool{}
	for _, b := range fr.fn.Blocks {
		for _, ins := range b.Instrs {
			dr, ok := ins.(*ssa.DebugRef)
			if !ok || dr.IsAddr {
				continue
			}
			obj := dr.Object()
			if obj == nil {
				continue
			}
			if _, isVar := obj.(*types.Var); !isVar {
				continue
			}
			if cands[obj.Name()] == nil {
				cands[obj.Name()] = map[ssa.Value]bool{}
			}
			cands[obj.Name()][dr.X] = true
		}
	}
	out := map[string]ssa.Value{}
	for name, vs := range cands {
		// values of the variable that dominate the loop header from outside the loop; the latest one (dominated by all
		// the others) is the variable's value on entry to the loop
		var doms []ssa.Value
		for v := range vs {
			switch x := v.(type) {
			case *ssa.Parameter:
				doms = append(doms, v)
			case ssa.Instruction:
				if x.Block() != nil && x.Block().Dominates(li.header) && !li.blocks[x.Block()] {
					doms = append(doms, v)
				}
			}
		}
		if len(doms) == 0 {
			continue
		}
		blockOf := func(v ssa.Value) *ssa.BasicBlock {
			if ins, ok := v.(ssa.Instruction); ok {
				return ins.Block()
			}
			return fr.fn.Blocks[0]
		}
		var best ssa.Value
		for _, c := range doms {
			last := true
			for _, o := range doms {
				if o == c {
					continue
				}
				bo, bc := blockOf(o), blockOf(c)
				if bo == bc {
					oi, oki := o.(ssa.Instruction)
					ci, okc := c.(ssa.Instruction)
					if oki && okc && instrIndex(oi) > instrIndex(ci) {
						last = false
					}
					if !oki || !okc {
						if _, isParam := c.(*ssa.Parameter); isParam {
							last = false
						}
					}
					continue
				}
				if !bo.Dominates(bc) {
					last = false
				}
			}
			if last {
				best = c
			}
		}
		if best != nil {
			out[name] = best
		}
	}
	return out
}

// inlineDef compiles a loop-free, heap-free pure function into a define-fun (closed term).
func (vc *VC) inlineDef(fc *FuncContract) (string, error) {
	name := sym("fn." + shortKey(fc.Key))
	if vc.pureDefs[name] {
		return name, nil
	}
	fn := vc.g.fnOf[fc]
	if fn == nil {
		return "", fmt.Errorf("inline contract %s has no body", fc.Key)
	}
	if loops, err := findLoops(fn); err != nil || len(loops) > 0 {
		return "", fmt.Errorf("inline contract %s: function has loops", fc.Key)
	}
	sub := &VC{g: vc.g, d: vc.d, fn: fn, c: fc, name: "inline " + fc.Key, cdecl: map[string]bool{}, notes: map[string]bool{}, ghostT: map[string]types.Type{},
		ghostDefs: vc.ghostDefs, heapsRead: map[string]bool{}, pureDefs: vc.pureDefs, closed: true}
	fr := sub.newFrame(fn, nil)
	var ps []string
	for i, p := range fn.Params {
		n := fmt.Sprintf("p!%d", i)
		fr.vals[p] = []string{n}
		ps = append(ps, fmt.Sprintf("(%s %s)", n, vc.d.sortOf(p.Type())))
	}
	st := &State{m: map[string]string{"$alloc": "1"}}
	sub.nfresh = vc.nfresh + 100000*(len(vc.pureDefs)+1)
	if gl := fc.Opts["init-globals"]; gl != "" {
		if err := fr.runGlobalInit(strings.Split(gl, ","), st); err != nil {
			return "", fmt.Errorf("inline contract %s: %v", fc.Key, err)
		}
	}
	_, _, res := fr.run("true", st)
	if sub.failed != nil {
		return "", fmt.Errorf("inline contract %s: %v", fc.Key, sub.failed)
	}
	if len(res) != 1 {
		return "", fmt.Errorf("inline contract %s: needs exactly one result", fc.Key)
	}
	for _, c := range sub.consts {
		vc.consts = append(vc.consts, c)
	}
	for k := range sub.cdecl {
		vc.cdecl[k] = true
	}
	vc.defs = append(vc.defs, sub.defs...)
	// merged result in closed mode: rebuild ite over return points
	t := fr.rets[len(fr.rets)-1].vals[0][0]
	for j := len(fr.rets) - 2; j >= 0; j-- {
		t = ite(fr.rets[j].pc, fr.rets[j].vals[0][0], t)
	}
	rs := vc.d.sortOf(fn.Signature.Results().At(0).Type())
	vc.pureDefs[name] = true
	vc.consts = append(vc.consts, fmt.Sprintf("(define-fun %s (%s) %s %s)", name, strings.Join(ps, " "), rs, t))
	for k := range sub.notes {
		vc.notes[k] = true
	}
	return name, nil
}

// ghostDefine emits the SMT definition of a ghost function; heap components it reads become extra parameters.
func (vc *VC) ghostDefine(gf *GhostFunc, tpb map[string]types.Type) (*ghostDef, error) {
	key := gf.PkgPath + "." + gf.Name + bindKey(tpb)
	if gd, ok := vc.ghostDefs[key]; ok {
		return gd, nil
	}
	name := sym("gh." + gf.Name + mangle(bindKey(tpb)))
	env := vc.newEnv(gf.PkgPath, nil)
	env.tpBind = tpb
	rt, err := env.resolveType(gf.Result)
	if err != nil {
		return nil, fmt.Errorf("ghost %s: %v", gf.Name, err)
	}
	gd := &ghostDef{name: name, result: rt, fuel: gf.Fuel}
	vc.ghostDefs[key] = gd
	var ps []string
	bind := func(e *SpecEnv) error {
		ps = nil
		for _, p := range gf.Params {
			ty, err := e.resolveType(p.T)
			if err != nil {
				return fmt.Errorf("ghost %s: %v", gf.Name, err)
			}
			pn := sym("g!" + p.Name)
			e.vars[p.Name] = tv{t: pn, ty: ty}
			ps = append(ps, fmt.Sprintf("(%s %s)", pn, vc.d.sortOf(ty)))
		}
		return nil
	}
	if gf.Body == nil {
		if err := bind(env); err != nil {
			return nil, err
		}
		var sorts []string
		for _, p := range gf.Params {
			ty, _ := env.resolveType(p.T)
			sorts = append(sorts, vc.d.sortOf(ty))
		}
		vc.consts = append(vc.consts, fmt.Sprintf("(declare-fun %s (%s) %s)", name, strings.Join(sorts, " "), vc.d.sortOf(rt)))
		for _, ax := range gf.Axioms {
			aenv := vc.newEnv(gf.PkgPath, nil)
			aenv.tpBind = tpb
			aenv.heapParam = map[string]string{}
			aenv.heapUsed = map[string]bool{}
			t, err := aenv.boolExpr(ax.E)
			if err != nil {
				return nil, fmt.Errorf("ghost %s axiom: %v", gf.Name, err)
			}
			if len(aenv.heapUsed) > 0 {
				return nil, fmt.Errorf("ghost %s axiom reads the heap", gf.Name)
			}
			vc.defs = append(vc.defs, "(assert "+t+")")
			vc.note("axiom of uninterpreted ghost function %s: %s", gf.Name, ax.Src)
		}
		return gd, nil
	}
	// pass 1: discover heap components read
	e1 := vc.newEnv(gf.PkgPath, nil)
	e1.tpBind = tpb
	e1.heapParam = map[string]string{}
	e1.heapUsed = map[string]bool{}
	if err := bind(e1); err != nil {
		return nil, err
	}
	nConsts, nDefs := len(vc.consts), len(vc.defs)
	if _, err := e1.expr(gf.Body); err != nil {
		delete(vc.ghostDefs, key)
		return nil, fmt.Errorf("ghost %s: %v", gf.Name, err)
	}
	_ = nConsts
	_ = nDefs
	gd.heaps = sortedSet(e1.heapUsed)
	// pass 2
	e2 := vc.newEnv(gf.PkgPath, nil)
	e2.tpBind = tpb
	e2.heapParam = map[string]string{}
	e2.heapUsed = map[string]bool{}
	if err := bind(e2); err != nil {
		return nil, err
	}
	if gf.Fuel {
		e2.fuelTerm = "fl!"
	}
	body, err := e2.expr(gf.Body)
	if err != nil {
		return nil, fmt.Errorf("ghost %s: %v", gf.Name, err)
	}
	if _, isPtr := rt.Underlying().(*types.Pointer); isPtr {
		body = asPtr(body)
	} else {
		body = e2.deref(body)
	}
	for _, h := range gd.heaps {
		ps = append(ps, fmt.Sprintf("(%s %s)", sym("hp!"+h), vc.sortOfState(h)))
	}
	if gf.Fuel {
		// uninterpreted function + unfolding axiom limited by fuel (no matching loop): f(S(fl), x) == body[f(fl, .)] and
		// f(S(fl), x) == f(fl, x); terms written in contracts carry fuel 2
		vc.d.add("fuel", "(declare-sort Fuel 0)\n(declare-fun fuel.Z () Fuel)\n(declare-fun fuel.S (Fuel) Fuel)")
		var sorts, args []string
		for _, p := range ps {
			f := strings.SplitN(strings.TrimSuffix(strings.TrimPrefix(p, "("), ")"), " ", 2)
			args = append(args, f[0])
			sorts = append(sorts, f[1])
		}
		vc.consts = append(vc.consts, fmt.Sprintf("(declare-fun %s (Fuel %s) %s)", name, strings.Join(sorts, " "), vc.d.sortOf(rt)))
		app := fmt.Sprintf("(%s (fuel.S fl!) %s)", name, strings.Join(args, " "))
		low := fmt.Sprintf("(%s fl! %s)", name, strings.Join(args, " "))
		vc.defs = append(vc.defs, fmt.Sprintf("(assert (forall ((fl! Fuel) %s) (! (and (= %s %s) (= %s %s)) :pattern (%s))))", strings.Join(ps, " "), app, body.t, app, low, app))
		for i, p := range ps[:len(ps)-len(gd.heaps)] {
			f := strings.SplitN(strings.TrimSuffix(strings.TrimPrefix(p, "("), ")"), " ", 2)
			if pt, err := e2.resolveType(gf.Params[i].T); err == nil {
				if _, abstract := pt.(*types.TypeParam); abstract {
					f[1] = "abstract:" + f[1] // a value of type-parameter type is never dereferenced by the function
				}
			}
			gd.params = append(gd.params, [2]string{f[0], f[1]})
		}
		return gd, nil
	}
	kw := "define-fun"
	if gf.Rec {
		kw = "define-fun-rec"
	}
	vc.consts = append(vc.consts, fmt.Sprintf("(%s %s (%s) %s %s)", kw, name, strings.Join(ps, " "), vc.d.sortOf(rt), body.t))
	return gd, nil
}

// lemmaVC: a pure validity obligation.
func (g *Gen) lemmaVC(lm *Lemma) (*VC, error) {
	vc := g.newVC("lemma "+lm.Name, nil, nil)
	vc.curProps = lm.Props
	st := &State{m: map[string]string{"$alloc": "1"}}
	env := vc.newEnv(lm.PkgPath, st)
	pc := "true"
	for _, u := range lm.Uses {
		ul := g.findLemma(lm.PkgPath, u)
		if ul == nil {
			return vc, fmt.Errorf("lemma %s uses unknown lemma %s", lm.Name, u)
		}
		t, err := env.assumeExpr(ul.E)
		if err != nil {
			return vc, fmt.Errorf("lemma %s (used by %s): %v", u, lm.Name, err)
		}
		pc = and(pc, t)
	}
	// top-level universal quantifier: skolemise for better solver behaviour
	body := lm.E
	if q, ok := body.(*EQuant); ok && q.Forall {
		for _, qv := range q.Vars {
			ty, err := env.resolveType(qv.T)
			if err != nil {
				return vc, fmt.Errorf("lemma %s: %v", lm.Name, err)
			}
			n := sym("sk." + qv.Name)
			vc.declare(n, vc.d.sortOf(ty))
			env.vars[qv.Name] = tv{t: n, ty: ty}
			pc = and(pc, vc.typeAssume(n, ty, st))
		}
		body = q.Body
	}
	t, err := env.boolExpr(body)
	if err != nil {
		return vc, fmt.Errorf("lemma %s: %v", lm.Name, err)
	}
	if lm.IndVar != "" {
		iv, ok := env.vars[lm.IndVar]
		if !ok {
			return vc, fmt.Errorf("lemma %s: induction variable %s is not a top-level quantified variable", lm.Name, lm.IndVar)
		}
		from, err := env.expr(lm.IndFrom)
		if err != nil {
			return vc, fmt.Errorf("lemma %s: %v", lm.Name, err)
		}
		// hypothesis: body with n-1 for n
		henv := *env
		henv.vars = copyVars(env.vars)
		henv.vars[lm.IndVar] = tv{t: fmt.Sprintf("(- %s 1)", iv.t), ty: iv.ty}
		ht, err := henv.boolExpr(body)
		if err != nil {
			return vc, fmt.Errorf("lemma %s: %v", lm.Name, err)
		}
		vc.addObl(&Obligation{Name: "lemma:" + lm.Name + ":base", Kind: "lemma", PC: and(pc, fmt.Sprintf("(<= %s %s)", iv.t, from.t)), Goal: t, Src: "base case: " + lm.Src})
		vc.addObl(&Obligation{Name: "lemma:" + lm.Name + ":step", Kind: "lemma", PC: and(pc, fmt.Sprintf("(> %s %s)", iv.t, from.t), ht), Goal: t, Src: "induction step: " + lm.Src})
		return vc, nil
	}
	vc.addObl(&Obligation{Name: "lemma:" + lm.Name, Kind: "lemma", PC: pc, Goal: t, Src: lm.Src})
	return vc, nil
}

// renderQuery produces the SMT-LIB text for an obligation.
func renderQuery(o *Obligation, seed int) string {
	vc := o.Prelude
	var nc, nd int
	fmt.Sscanf(o.Extra, "%d %d", &nc, &nd)
	if nc > len(vc.consts) {
		nc = len(vc.consts)
	}
	if nd > len(vc.defs) {
		nd = len(vc.defs)
	}
	var b strings.Builder
	b.WriteString("(set-option :produce-models true)\n")
	b.WriteString("(set-logic ALL)\n")
	b.WriteString(vc.d.text())
	// all constants: later ones may be referenced by heap versions declared lazily; they are cheap
	for _, c := range vc.consts {
		b.WriteString(c)
		b.WriteByte('\n')
	}
	for _, d := range vc.defs[:nd] {
		b.WriteString(d)
		b.WriteByte('\n')
	}
	fmt.Fprintf(&b, "; obligation %s#%s\n; %s\n", o.Func, o.Name, o.Src)
	fmt.Fprintf(&b, "(assert %s)\n", o.PC)
	if !o.WantSat {
		fmt.Fprintf(&b, "(assert (not %s))\n", o.Goal)
	}
	b.WriteString("(check-sat)\n")
	return b.String()
}

func (g *Gen) findLemma(pkgPath, name string) *Lemma {
	for _, l := range g.lemmas {
		if l.Name == name && l.PkgPath == pkgPath {
			return l
		}
	}
	for _, l := range g.lemmas {
		if l.Name == name {
			return l
		}
	}
	return nil
}

// closedWorldVC: frame obligation "every call of this function in the repository sits in a function under a verified
// contract" (so that the callee's precondition has been checked at every call site that exists).
func (g *Gen) closedWorldVC(fc *FuncContract) *VC {
	vc := g.newVC("closedworld "+shortKey(fc.Key), nil, nil)
	vc.curProps = fc.Props
	target := g.fnOf[fc]
	var bad []string
	n := 0
	for fn := range ssaAllFunctions(g.prog) {
		if fn.Pkg == nil || !strings.HasPrefix(fn.Pkg.Pkg.Path(), "github.com/AliceO2Group/Control") {
			continue
		}
		for _, b := range fn.Blocks {
			for _, ins := range b.Instrs {
				ci, ok := ins.(ssa.CallInstruction)
				if !ok {
					continue
				}
				c := ci.Common()
				match := false
				if sc := c.StaticCallee(); sc != nil {
					if target != nil && sc == target {
						match = true
					} else if target == nil && (sc.String() == fc.Key) {
						match = true
					}
				}
				if !match {
					continue
				}
				n++
				cfc := g.contractFor(fn)
				if fn == target {
					continue
				}
				if cfc == nil || cfc.NoVerify || cfc.Trusted {
					bad = append(bad, shortKey(fn.String()))
				}
			}
		}
	}
	sort.Strings(bad)
	goal := "true"
	if len(bad) > 0 {
		goal = "false"
	}
	vc.addObl(&Obligation{Name: "frame:callers", Kind: "frame", PC: "true", Goal: goal,
		Src: fmt.Sprintf("all %d call sites of %s are in functions under contract; callers without contract: %v", n, shortKey(fc.Key), bad)})
	return vc
}
