package main

import (
	"encoding/json"
	"fmt"
	"os"
	"path/filepath"
	"regexp"
	"sort"
	"strconv"
	"strings"
	"time"

	"golang.org/x/tools/go/ssa"
)

var verifDir = "/verif"
var repoDir = "/repo"

func main() {
	if d := os.Getenv("VERIF_DIR"); d != "" {
		verifDir = d
	}
	if d := os.Getenv("VERIF_REPO"); d != "" {
		repoDir = d
	}
	if len(os.Args) < 2 {
		fmt.Fprintln(os.Stderr, "usage: govc check <PROP> <quick|thorough> | dump <pkg> <func> | vc <PROP> [func-substring] | lock <PROP>")
		os.Exit(2)
	}
	switch os.Args[1] {
	case "dump":
		dump(os.Args[2], os.Args[3])
	case "loops":
		g, err := loadGen(repoDir, []string{os.Args[2]}, "")
		if err != nil {
			fmt.Fprintln(os.Stderr, err)
			os.Exit(2)
		}
		for fn := range ssaAllFunctions(g.prog) {
			if fn.Name() == os.Args[3] || strings.HasSuffix(fn.String(), os.Args[3]) {
				ls, err := findLoops(fn)
				fmt.Println(fn.String(), err)
				for _, l := range ls {
					pos := ""
					for _, ins := range l.header.Instrs {
						if ins.Pos().IsValid() {
							pos = g.prog.Fset.Position(ins.Pos()).String()
							break
						}
					}
					if pos == "" {
						for b := range l.blocks {
							for _, ins := range b.Instrs {
								if ins.Pos().IsValid() && pos == "" {
									pos = g.prog.Fset.Position(ins.Pos()).String()
								}
							}
						}
					}
					fmt.Printf("  loop %d header block %d (%s) %d blocks near %s\n", l.ordinal, l.header.Index, l.header.Comment, len(l.blocks), pos)
				}
			}
		}
	case "check":
		tier := "quick"
		if len(os.Args) > 3 {
			tier = os.Args[3]
		}
		// GOVC_FILTER: only the contracts whose function key contains this substring (used by `./check --replay`); the
		// clause lock is not compared and no evidence is written for a filtered run
		os.Exit(check(os.Args[2], tier, false, os.Getenv("GOVC_FILTER")))
	case "lock":
		os.Exit(check(os.Args[2], "quick", true, ""))
	case "vc":
		filter := ""
		if len(os.Args) > 3 {
			filter = os.Args[3]
		}
		os.Exit(check(os.Args[2], "debug", false, filter))
	default:
		fmt.Fprintln(os.Stderr, "unknown command")
		os.Exit(2)
	}
}

func dump(pkg, name string) {
	g, err := loadGen(repoDir, []string{pkg}, "")
	if err != nil {
		fmt.Fprintln(os.Stderr, err)
		os.Exit(2)
	}
	for fn := range ssaAllFunctions(g.prog) {
		if fn.Name() == name || fn.String() == name || strings.HasSuffix(fn.String(), name) {
			fn.WriteTo(os.Stdout)
		}
	}
}

func ssaAllFunctions(prog *ssa.Program) map[*ssa.Function]bool {
	out := map[*ssa.Function]bool{}
	var add func(f *ssa.Function)
	add = func(f *ssa.Function) {
		if f == nil || out[f] {
			return
		}
		out[f] = true
		for _, a := range f.AnonFuncs {
			add(a)
		}
	}
	for _, p := range prog.AllPackages() {
		for _, m := range p.Members {
			switch x := m.(type) {
			case *ssa.Function:
				add(x)
			case *ssa.Type:
				for _, t := range []interface{}{x.Type()} {
					_ = t
				}
				ms := prog.MethodSets.MethodSet(x.Type())
				for i := 0; i < ms.Len(); i++ {
					add(prog.MethodValue(ms.At(i)))
				}
				if _, isPtr := x.Type().Underlying().(interface{ Elem() }); !isPtr {
					pms := prog.MethodSets.MethodSet(typesNewPointer(x.Type()))
					for i := 0; i < pms.Len(); i++ {
						add(prog.MethodValue(pms.At(i)))
					}
				}
			}
		}
	}
	return out
}

// packagesForProperty: directories under repo whose contracts_verif.go mentions the property.
func packagesForProperty(prop string) ([]string, error) {
	var pats []string
	re := regexp.MustCompile(`(?m)^\s*//@\s*(property|lemma)\b.*\b` + regexp.QuoteMeta(prop) + `\b`)
	err := filepath.Walk(repoDir, func(p string, info os.FileInfo, err error) error {
		if err != nil {
			return nil
		}
		if info.IsDir() && (info.Name() == ".git" || info.Name() == "node_modules" || info.Name() == "vendor") {
			return filepath.SkipDir
		}
		if !info.IsDir() && info.Name() == "contracts_verif.go" {
			b, err := os.ReadFile(p)
			if err != nil {
				return nil
			}
			if re.Match(b) {
				rel, _ := filepath.Rel(repoDir, filepath.Dir(p))
				pats = append(pats, "./"+rel)
			}
		}
		return nil
	})
	sort.Strings(pats)
	return pats, err
}

type oblReport struct {
	Name    string  `json:"name"`
	Kind    string  `json:"kind"`
	Goal    string  `json:"goal"`
	Status  string  `json:"status"`
	Solver  string  `json:"solver"`
	TimeS   float64 `json:"time_s"`
	Verdict string  `json:"verdict"` // discharged, FAILED, known-finding, vacuous
}

type funcReport struct {
	Function    string      `json:"function"`
	Contract    []string    `json:"contract"`
	Obligations []oblReport `json:"obligations"`
	SMTBytes    int         `json:"smt_bytes_max"`
}

type knownFinding struct {
	Kind string // known | fixed
	Prop string
	Obl  string
	Text string
}

func loadKnown() []knownFinding {
	b, err := os.ReadFile(filepath.Join(verifDir, "known_findings.txt"))
	if err != nil {
		return nil
	}
	var out []knownFinding
	for _, l := range strings.Split(string(b), "\n") {
		l = strings.TrimSpace(l)
		if l == "" || strings.HasPrefix(l, "#") {
			continue
		}
		kf := knownFinding{}
		switch {
		case strings.HasPrefix(l, "known:"):
			kf.Kind = "known"
			l = strings.TrimSpace(l[6:])
		case strings.HasPrefix(l, "fixed:"):
			kf.Kind = "fixed"
			l = strings.TrimSpace(l[6:])
		default:
			continue
		}
		for _, f := range strings.Fields(l) {
			if strings.HasPrefix(f, "property=") {
				kf.Prop = f[9:]
			}
			if strings.HasPrefix(f, "obligation=") {
				kf.Obl = f[11:]
			}
		}
		// an obligation name that contains spaces (lemmas, closures) is written in double quotes
		if i := strings.Index(l, `obligation="`); i >= 0 {
			rest := l[i+len(`obligation="`):]
			if j := strings.Index(rest, `"`); j >= 0 {
				kf.Obl = rest[:j]
			}
		}
		kf.Text = l
		out = append(out, kf)
	}
	return out
}

func check(prop, tier string, writeLock bool, filter string) int {
	t0 := time.Now()
	seed := 0
	if s := os.Getenv("VERIF_SEED"); s != "" {
		seed, _ = strconv.Atoi(s)
	}
	if t := os.Getenv("VERIF_TIER"); t != "" && tier != "debug" && (t == "quick" || t == "thorough") {
		tier = t
	}
	evPath := filepath.Join(verifDir, "evidence", prop+".json")
	replayDir := filepath.Join(verifDir, "evidence", "replay")
	if d := os.Getenv("GOVC_REPLAY_DIR"); d != "" {
		replayDir = d
	}
	_ = os.MkdirAll(replayDir, 0o755)
	scratch, err := os.MkdirTemp("", "govc-"+prop+"-")
	if err != nil {
		fmt.Fprintln(os.Stderr, err)
		return 2
	}
	defer func() {
		// GOVC_KEEP_SMT=<dir>: keep the generated SMT-LIB files (debugging aid)
		if keep := os.Getenv("GOVC_KEEP_SMT"); keep != "" {
			_ = os.MkdirAll(keep, 0o755)
			if ents, err := os.ReadDir(filepath.Join(scratch, "smt")); err == nil {
				for _, e := range ents {
					if b, err := os.ReadFile(filepath.Join(scratch, "smt", e.Name())); err == nil {
						_ = os.WriteFile(filepath.Join(keep, e.Name()), b, 0o644)
					}
				}
			}
		}
		os.RemoveAll(scratch)
	}()

	violation := func(reason, detail string) int {
		rp := filepath.Join(replayDir, prop+"-infrastructure.json")
		b, _ := json.MarshalIndent(map[string]interface{}{"property": prop, "obligation": reason, "detail": detail}, "", " ")
		_ = os.WriteFile(rp, b, 0o644)
		fmt.Printf("VIOLATION property=%s replay=%s no-failing-input-found\n", prop, rp)
		fmt.Printf("  reason: %s: %s\n", reason, detail)
		writeEvidence(evPath, prop, tier, seed, nil, nil, nil, 1, time.Since(t0).Seconds(), nil, "")
		return 1
	}

	pats, err := packagesForProperty(prop)
	if err != nil || len(pats) == 0 {
		return violation("no-contracts", fmt.Sprintf("no contract file in %s mentions property %s (contracts removed?)", repoDir, prop))
	}
	currentProp = prop
	g, err := loadGen(repoDir, pats, filepath.Join(verifDir, "contracts", "ext"))
	if err != nil {
		if g != nil && len(g.loadErrs) > 0 {
			fmt.Fprintf(os.Stderr, "tree does not build: %v\n", err)
			return 2
		}
		return violation("contract-resolution", err.Error())
	}
	g.recordedLocals = loadLocals(prop)
	loadS := time.Since(t0).Seconds()
	if os.Getenv("GOVC_DEBUGKEYS") != "" {
		for k := range g.contracts {
			fmt.Println("contract key:", k)
		}
	}

	var vcs []*VC
	var obls []*Obligation
	var genErrs []string
	funcsUnder := []string{}
	for _, fc := range g.allFC {
		if !hasProp(fc.Props, prop) || fc.Trusted || fc.NoVerify {
			continue
		}
		if filter != "" && !strings.Contains(fc.Key, filter) {
			continue
		}
		if g.fnOf[fc] == nil && fc.ClosedWorld {
			continue // interface / external method: only its callers are checked
		}
		vc, err := g.verifyFunc(fc)
		if err != nil {
			genErrs = append(genErrs, fmt.Sprintf("%s: %v", shortKey(fc.Key), err))
			continue
		}
		funcsUnder = append(funcsUnder, shortKey(fc.Key))
		vcs = append(vcs, vc)
		obls = append(obls, vc.obls...)
	}
	// closed-world obligations: every caller of a function whose contract says "closedworld" is under contract
	for _, fc := range g.allFC {
		if !fc.ClosedWorld || !hasProp(fc.Props, prop) {
			continue
		}
		if filter != "" && !strings.Contains(fc.Key, filter) {
			continue
		}
		vc := g.closedWorldVC(fc)
		vcs = append(vcs, vc)
		obls = append(obls, vc.obls...)
	}
	for _, lm := range g.lemmas {
		if !hasProp(lm.Props, prop) {
			continue
		}
		if filter != "" && !strings.Contains(lm.Name, filter) {
			continue
		}
		vc, err := g.lemmaVC(lm)
		if err != nil {
			genErrs = append(genErrs, err.Error())
			continue
		}
		vcs = append(vcs, vc)
		obls = append(obls, vc.obls...)
	}
	if len(genErrs) > 0 {
		return violation("vc-generation", strings.Join(genErrs, " | "))
	}
	for _, ma := range g.missing {
		if !hasProp(ma.fc.Props, prop) {
			continue
		}
		if filter != "" && !strings.Contains(ma.fc.Header, filter) {
			continue
		}
		vc := g.newVC(strings.TrimPrefix(ma.fc.Header, "func "), nil, nil)
		vc.curProps = ma.fc.Props
		vc.addObl(&Obligation{Name: "anchor", Kind: "structural", PC: "true", Goal: "false",
			Src: "the function this contract is written on exists  [" + ma.why + "]"})
		vcs = append(vcs, vc)
		obls = append(obls, vc.obls...)
	}
	{
		// clauses tagged with a property list contribute their obligations to those properties only
		kept := obls[:0]
		for _, o := range obls {
			if ps := clauseProps(o.Src); ps != nil && !hasProp(ps, prop) {
				continue
			}
			kept = append(kept, o)
		}
		obls = kept
	}
	if len(obls) == 0 {
		return violation("no-obligations", "zero obligations generated: the verifier decided nothing")
	}
	genS := time.Since(t0).Seconds() - loadS

	timeout := 10
	if tier == "thorough" {
		timeout = 30
	}
	if t := os.Getenv("GOVC_TIMEOUT"); t != "" {
		timeout, _ = strconv.Atoi(t)
	}
	smtDir := filepath.Join(scratch, "smt")
	if tier == "debug" {
		smtDir = filepath.Join(verifDir, "tmp-smt")
		_ = os.RemoveAll(smtDir)
		_ = os.MkdirAll(smtDir, 0o755)
	}
	for _, kf := range loadKnown() {
		if kf.Kind != "known" || kf.Prop != prop {
			continue
		}
		for _, o := range obls {
			full := o.Func + "#" + o.Name
			if kf.Obl == full || lockKey(kf.Obl) == lockKey(full) {
				o.ExpectedToFail = true
			}
		}
	}
	dischargeAll(obls, smtDir, timeout, seed, 8, tier == "thorough")

	known := loadKnown()
	isKnown := func(full string) *knownFinding {
		for i := range known {
			if known[i].Kind == "known" && known[i].Prop == prop && (known[i].Obl == full || lockKey(known[i].Obl) == lockKey(full)) {
				return &known[i]
			}
		}
		return nil
	}

	// lock file
	lockPath := filepath.Join(verifDir, "locks", prop+".lock")
	var names []string
	deadNow := map[string]bool{}
	for _, o := range obls {
		n := o.Func + "#" + o.Name
		if o.WantSat && strings.HasPrefix(o.Name, "cover:reach") && o.Result != nil && o.Result.Status == "unsat" {
			deadNow[n] = true
			n += " !dead"
		}
		names = append(names, n)
	}
	sort.Strings(names)
	// returns recorded as unreachable under the precondition (defensive code) in the committed lock
	deadLocked := map[string]bool{}
	// ... counted per function, so that an edit that renumbers the returns of a function does not turn a return that was
	// always unreachable under the precondition (defensive code) into an alarm
	deadAllowed := map[string]int{}
	deadUsed := map[string]int{}
	if b, err := os.ReadFile(lockPath); err == nil {
		for _, l := range strings.Split(string(b), "\n") {
			if strings.HasSuffix(l, " !dead") {
				n := strings.TrimSuffix(l, " !dead")
				deadLocked[n] = true
				if i := strings.Index(n, "#cover:reach"); i >= 0 {
					deadAllowed[n[:i]]++
				}
			}
		}
	}
	if writeLock {
		// the lock pins contract clauses (so that a removed or disabled clause is noticed), not the shape of the code: one
		// line per clause, whatever the number of return points, back edges or call-site occurrences it is instantiated at;
		// obligations derived from the code alone (frame checks per written heap component, reachability covers) are not
		// locked. Returns recorded as unreachable keep their exact name (marked !dead).
		seenL := map[string]bool{}
		var lines []string
		for _, n := range names {
			l := n
			if !strings.HasSuffix(n, " !dead") {
				l = lockKey(n)
			}
			if l == "" || seenL[l] {
				continue
			}
			seenL[l] = true
			lines = append(lines, l)
		}
		sort.Strings(lines)
		_ = os.MkdirAll(filepath.Dir(lockPath), 0o755)
		_ = os.WriteFile(lockPath, []byte(strings.Join(lines, "\n")+"\n"), 0o644)
		fmt.Printf("wrote %s (%d clauses for %d obligations)\n", lockPath, len(lines), len(names))
		var fns []*ssa.Function
		for _, fc := range g.allFC {
			if hasProp(fc.Props, prop) && g.fnOf[fc] != nil {
				fns = append(fns, g.fnOf[fc])
			}
		}
		writeLocals(prop, fns)
		g.writeFuncs(prop, fns)
	}

	nViol := 0
	nDis := 0
	nKnown := 0
	var reports []funcReport
	byFunc := map[string]*funcReport{}
	var solverS float64
	backends := map[string]int{}
	var samples []interface{}
	var violLines []string
	knownPrinted := map[string]bool{}
	var knownNames []string
	unsatReach := map[string]int{}
	for _, o := range obls {
		if o.WantSat && strings.HasPrefix(o.Name, "cover:reach") && o.Result != nil && o.Result.Status == "unsat" {
			unsatReach[o.Func]++
		}
	}
	_ = deadUsed
	for _, o := range obls {
		full := o.Func + "#" + o.Name
		r := o.Result
		solverS += r.TimeS
		verdict := "discharged"
		ok := false
		if o.WantSat {
			ok = r.Status == "sat" || r.Status == "unknown" || r.Status == "timeout"
			if !ok && strings.HasPrefix(o.Name, "cover:reach") && unsatReach[o.Func] <= deadAllowed[o.Func] {
				deadLocked[full] = true
			}
			if !ok && strings.HasPrefix(o.Name, "cover:reach") && (deadLocked[full] || writeLock || tier == "debug") {
				// a return that is unreachable under the precondition on the unchanged tree too (defensive code): recorded in the lock
				ok = true
				verdict = "dead-under-precondition"
			}
			if !ok {
				verdict = "vacuous"
			}
		} else {
			ok = r.Status == "unsat"
			if !ok {
				verdict = "FAILED"
			}
		}
		if ok {
			nDis++
			backends[r.Solver]++
		} else if kf := isKnown(full); kf != nil {
			verdict = "known-finding"
			nKnown++
			o.Kind = o.Kind + " (known finding)"
			knownNames = append(knownNames, full)
			if !knownPrinted[full] {
				knownPrinted[full] = true
				fmt.Printf("KNOWN-FINDING: %s\n", kf.Text)
			}
		} else {
			nViol++
			rp := filepath.Join(replayDir, fmt.Sprintf("%s-%s.json", prop, fileSafe(full)))
			smtCopy := filepath.Join(replayDir, fmt.Sprintf("%s-%s.smt2", prop, fileSafe(full)))
			if b, err := os.ReadFile(r.File); err == nil {
				_ = os.WriteFile(smtCopy, b, 0o644)
			}
			rep := map[string]interface{}{"property": prop, "obligation": full, "kind": o.Kind, "clause": o.Src, "solver_status": r.Status, "solver": r.Solver,
				"tried": r.Tried, "model": r.Model, "smt_file": smtCopy, "solver_output": r.Raw}
			suffix := " no-failing-input-found"
			if r.Status == "sat" && r.Model != "" {
				confirmed, out := tryReplay(g, o, r, scratch)
				rep["replay_output"] = out
				rep["replay_confirmed"] = confirmed
				if confirmed {
					suffix = ""
				}
			}
			b, _ := json.MarshalIndent(rep, "", " ")
			_ = os.WriteFile(rp, b, 0o644)
			violLines = append(violLines, fmt.Sprintf("VIOLATION property=%s replay=%s%s", prop, rp, suffix))
			violLines = append(violLines, fmt.Sprintf("  failed obligation: %s  [%s]  clause: %s  solver: %s", full, o.Kind, o.Src, strings.Join(r.Tried, ",")))
		}
		fr := byFunc[o.Func]
		if fr == nil {
			fr = &funcReport{Function: o.Func}
			byFunc[o.Func] = fr
		}
		fr.Obligations = append(fr.Obligations, oblReport{Name: o.Name, Kind: o.Kind, Goal: o.Src, Status: r.Status, Solver: r.Solver, TimeS: round3(r.TimeS), Verdict: verdict})
		if fi, err := os.Stat(r.File); err == nil && int(fi.Size()) > fr.SMTBytes {
			fr.SMTBytes = int(fi.Size())
		}
		if len(samples) < 6 && !o.WantSat && ok {
			samples = append(samples, map[string]string{"obligation": full, "kind": o.Kind, "clause": o.Src, "backend": r.Solver})
		}
	}
	// lock comparison: every locked obligation must have been generated
	if !writeLock && filter == "" {
		if b, err := os.ReadFile(lockPath); err == nil {
			have := map[string]bool{}
			for _, n := range names {
				have[strings.TrimSuffix(n, " !dead")] = true
				have[lockKey(strings.TrimSuffix(n, " !dead"))] = true
			}
			for _, l := range strings.Split(strings.TrimSpace(string(b)), "\n") {
				if strings.HasSuffix(l, " !dead") {
					continue // only says that an unreachable return is expected, demands nothing
				}
				l = lockKey(l)
				if l != "" && !have[l] {
					nViol++
					rp := filepath.Join(replayDir, fmt.Sprintf("%s-missing-%s.json", prop, fileSafe(l)))
					bb, _ := json.MarshalIndent(map[string]interface{}{"property": prop, "obligation": l, "reason": "obligation listed in the committed lock was not generated: contract anchor not found / code shape changed so that the verifier no longer sees this proof step"}, "", " ")
					_ = os.WriteFile(rp, bb, 0o644)
					violLines = append(violLines, fmt.Sprintf("VIOLATION property=%s replay=%s no-failing-input-found", prop, rp))
					violLines = append(violLines, fmt.Sprintf("  vanished obligation: %s", l))
				}
			}
		} else if tier != "debug" {
			fmt.Fprintf(os.Stderr, "note: no lock file %s\n", lockPath)
		}
	}
	var fnames []string
	for k := range byFunc {
		fnames = append(fnames, k)
	}
	sort.Strings(fnames)
	for _, k := range fnames {
		reports = append(reports, *byFunc[k])
	}
	// assumptions
	assume := map[string]bool{}
	for _, vc := range vcs {
		for n := range vc.notes {
			assume[n] = true
		}
	}
	for _, fc := range g.allFC {
		if fc.Trusted {
			continue
		}
	}
	var assumptions []string
	for a := range assume {
		assumptions = append(assumptions, a)
	}
	sort.Strings(assumptions)
	for _, l := range violLines {
		fmt.Println(l)
	}
	extra := map[string]interface{}{
		"functions_under_contract": funcsUnder, "per_function": reports, "backends": backends, "solver_time_s": round3(solverS),
		"load_s": round3(loadS), "vcgen_s": round3(genS), "known_findings_matched": nKnown, "known_finding_obligations": knownNames, "packages": pats,
	}
	writeEvidence(evPath, prop, tier, seed, obls, samples, assumptions, nViol, time.Since(t0).Seconds(), extra, fmt.Sprintf("%d/%d", nDis, len(obls)-nKnown))
	fmt.Printf("property %s tier %s: %d obligations, %d discharged, %d known findings, %d violations; load %.1fs vcgen %.1fs solve(cpu) %.1fs wall %.1fs\n",
		prop, tier, len(obls), nDis, nKnown, nViol, loadS, genS, solverS, time.Since(t0).Seconds())
	if tier == "debug" {
		for _, o := range obls {
			fmt.Printf("  %-9s %-8s %6.2fs %s#%s   %s\n", o.Result.Status, o.Result.Solver, o.Result.TimeS, o.Func, o.Name, strings.Join(o.Result.Tried, ","))
			if o.Result.Status == "error" {
				fmt.Println(o.Result.Raw)
			}
			if !o.WantSat && o.Result.Status != "unsat" {
				// debugging aid: which conjunct of the goal is the problem?
				parts := splitTopAnd(o.Goal)
				if len(parts) > 1 {
					for i, p := range parts {
						o2 := *o
						o2.Goal = p
						q := renderQuery(&o2, seed)
						r := solve(q, filepath.Join(smtDir, fmt.Sprintf("split_%d.smt2", i)), 5, seed, false, false)
						pp := p
						if len(pp) > 140 {
							pp = pp[:140] + "..."
						}
						fmt.Printf("      conjunct %d: %-8s %s\n", i+1, r.Status, pp)
					}
				}
			}
		}
		var as []string
		for a := range assume {
			as = append(as, a)
		}
		sort.Strings(as)
		for _, a := range as {
			fmt.Println("  note:", a)
		}
	}
	if nViol > 0 {
		return 1
	}
	return 0
}

func round3(f float64) float64 { return float64(int(f*1000)) / 1000 }

func hasProp(ps []string, p string) bool {
	for _, x := range ps {
		if x == p {
			return true
		}
	}
	return false
}

func writeEvidence(path, prop, tier string, seed int, obls []*Obligation, samples []interface{}, assumptions []string, nViol int, wall float64, extra map[string]interface{}, dis string) {
	if tier == "debug" {
		return
	}
	_ = os.MkdirAll(filepath.Dir(path), 0o755)
	// proof obligations (must be unsat) are counted apart from the vacuity covers (guards: only a PROVED unreachability
	// matters for them; a return recorded as unreachable in the lock is expected to be proved unreachable)
	nObl, nDis := 0, 0
	nCover, nCoverOpen, nCoverDead := 0, 0, 0
	for _, o := range obls {
		if o.Result == nil {
			continue
		}
		if o.WantSat {
			nCover++
			if o.Result.Status == "unsat" {
				nCoverDead++
			} else {
				nCoverOpen++
			}
			continue
		}
		if strings.HasSuffix(o.Kind, "(known finding)") {
			continue // listed in known_findings.txt: reported apart, not part of what this run proves
		}
		nObl++
		if o.Result.Status == "unsat" {
			nDis++
		}
	}
	if extra == nil {
		extra = map[string]interface{}{}
	}
	extra["vacuity_covers"] = map[string]int{"generated": nCover, "not_shown_vacuous": nCoverOpen, "proved_unreachable": nCoverDead}
	if os.Getenv("GOVC_NO_EVIDENCE") != "" {
		return
	}
	if samples == nil {
		samples = []interface{}{}
	}
	cov := map[string]interface{}{
		"obligations": nObl, "discharged": nDis,
		"checker_cmd":  fmt.Sprintf("/verif/bin/govc check %s %s  (go/ssa VC generator; z3-new 5.1.0 | cvc5 1.0 | z3 4.8.12 portfolio)", prop, tier),
		"trusted_base": []string{"golang.org/x/tools v0.29.0 go/packages+go/types+go/ssa as the semantics of the Go source", "govc SSA->SMT translation (this repository, /verif/govc)", "SMT solvers z3 5.1.0, z3 4.8.12, cvc5 1.0", "assumed contracts listed under assumptions"},
		"samples":      samples,
		"rule":         "one obligation per contract clause, loop-invariant init/preserve, call-site precondition, site assertion, frame condition and vacuity cover; generated from the SSA of /repo's working tree on this run",
	}
	for k, v := range extra {
		cov[k] = v
	}
	if assumptions == nil {
		assumptions = []string{}
	}
	ev := map[string]interface{}{"property_id": prop, "tier": tier, "seed": seed, "level": "proof", "coverage": cov, "assumptions": assumptions, "wall_s": round3(wall), "violations": nViol}
	b, _ := json.MarshalIndent(ev, "", " ")
	_ = os.WriteFile(path, b, 0o644)
}

// splitTopAnd splits "(and a b c)" into its conjuncts (one level).
func splitTopAnd(t string) []string {
	t = strings.TrimSpace(t)
	if !strings.HasPrefix(t, "(and ") || !strings.HasSuffix(t, ")") {
		return []string{t}
	}
	body := t[5 : len(t)-1]
	var parts []string
	depth, start := 0, 0
	inBar, inStr := false, false
	for i := 0; i < len(body); i++ {
		c := body[i]
		switch {
		case inStr:
			if c == '"' {
				inStr = false
			}
		case inBar:
			if c == '|' {
				inBar = false
			}
		case c == '"':
			inStr = true
		case c == '|':
			inBar = true
		case c == '(':
			depth++
		case c == ')':
			depth--
		case c == ' ' && depth == 0:
			if i > start {
				parts = append(parts, body[start:i])
			}
			start = i + 1
		}
	}
	if start < len(body) {
		parts = append(parts, body[start:])
	}
	return parts
}

var (
	reRetSuffix  = regexp.MustCompile(`@(ret|b)\d+$`)
	reSiteOcc    = regexp.MustCompile(`#site(\d+)\.(\d+)/\d+:`)
	reRequiresAt = regexp.MustCompile(`#requires@(.+)/\d+:requires`)
	reGoframe    = regexp.MustCompile(`#goframe:\d+:`)
)

// lockKey maps an obligation name to the contract clause it instantiates ("" for obligations derived from the code
// alone, which the lock does not pin).
func lockKey(n string) string {
	if strings.Contains(n, "#modifies:") || strings.Contains(n, "#cover:reach") || strings.Contains(n, "#safety") {
		return ""
	}
	n = reRetSuffix.ReplaceAllString(n, "")
	n = reSiteOcc.ReplaceAllString(n, "#site$1.$2:")
	n = reRequiresAt.ReplaceAllString(n, "#requires@$1:requires")
	n = reGoframe.ReplaceAllString(n, "#goframe:")
	return strings.TrimSpace(n)
}
