package main

import (
	"fmt"
	"go/constant"
	"go/types"
	"sort"
	"strings"

	"golang.org/x/tools/go/ssa"
)

// literalTable extracts the canonical text of a composite literal "[]T{ {...}, ... }" (T a struct with string and
// []string fields, all constants) of the named slice type from the function's SSA. Used for structural obligations
// such as "the FSM transition table is exactly the documented graph". Elements are joined with ';', fields with '|',
// string lists with ','.
func literalTable(fn *ssa.Function, typeShort string) (string, error) {
	var arr *ssa.Alloc
	for _, b := range fn.Blocks {
		for _, ins := range b.Instrs {
			sl, ok := ins.(*ssa.Slice)
			if !ok {
				continue
			}
			if typeNameShort(sl.Type()) != typeShort {
				continue
			}
			if a, ok := sl.X.(*ssa.Alloc); ok {
				if arr != nil {
					return "", fmt.Errorf("several literals of type %s", typeShort)
				}
				arr = a
			}
		}
	}
	if arr == nil {
		return "", fmt.Errorf("no literal of type %s found", typeShort)
	}
	at := arr.Type().Underlying().(*types.Pointer).Elem().Underlying().(*types.Array)
	st, ok := at.Elem().Underlying().(*types.Struct)
	if !ok {
		return "", fmt.Errorf("literal element is not a struct")
	}
	n := int(at.Len())
	cells := make([][]string, n)
	for i := range cells {
		cells[i] = make([]string, st.NumFields())
	}
	constStr := func(v ssa.Value) (string, bool) {
		c, ok := v.(*ssa.Const)
		if !ok || c.Value == nil || c.Value.Kind() != constant.String {
			return "", false
		}
		return constant.StringVal(c.Value), true
	}
	// string-list literals: alloc -> index -> value
	lists := map[*ssa.Alloc]map[int]string{}
	for _, b := range fn.Blocks {
		for _, ins := range b.Instrs {
			s, ok := ins.(*ssa.Store)
			if !ok {
				continue
			}
			ia, ok := s.Addr.(*ssa.IndexAddr)
			if !ok {
				continue
			}
			a, ok := ia.X.(*ssa.Alloc)
			if !ok || a == arr {
				continue
			}
			ic, ok := ia.Index.(*ssa.Const)
			if !ok {
				continue
			}
			if v, ok := constStr(s.Val); ok {
				if lists[a] == nil {
					lists[a] = map[int]string{}
				}
				idx, _ := constant.Int64Val(ic.Value)
				lists[a][int(idx)] = v
			}
		}
	}
	for _, b := range fn.Blocks {
		for _, ins := range b.Instrs {
			s, ok := ins.(*ssa.Store)
			if !ok {
				continue
			}
			fa, ok := s.Addr.(*ssa.FieldAddr)
			if !ok {
				continue
			}
			ia, ok := fa.X.(*ssa.IndexAddr)
			if !ok || ia.X != ssa.Value(arr) {
				continue
			}
			ic, ok := ia.Index.(*ssa.Const)
			if !ok {
				return "", fmt.Errorf("non-constant index into the literal")
			}
			idx64, _ := constant.Int64Val(ic.Value)
			idx := int(idx64)
			if v, ok := constStr(s.Val); ok {
				cells[idx][fa.Field] = v
				continue
			}
			if sl, ok := s.Val.(*ssa.Slice); ok {
				if la, ok := sl.X.(*ssa.Alloc); ok {
					m := lists[la]
					var ks []int
					for k := range m {
						ks = append(ks, k)
					}
					sort.Ints(ks)
					var vs []string
					for _, k := range ks {
						vs = append(vs, m[k])
					}
					cells[idx][fa.Field] = strings.Join(vs, ",")
					continue
				}
			}
			return "", fmt.Errorf("non-constant field value in the literal (element %d field %s)", idx, st.Field(fa.Field).Name())
		}
	}
	var rows []string
	for _, c := range cells {
		rows = append(rows, strings.Join(c, "|"))
	}
	return strings.Join(rows, ";"), nil
}
