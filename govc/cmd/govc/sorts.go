package main

// Go types -> SMT sorts, heap naming, declarations.

import (
	"fmt"
	"go/types"
	"sort"
	"strings"
)

// ghostMap is a spec-only mathematical map/set type (SMT array), distinct from Go maps (references).
type ghostMap struct{ key, val types.Type }

func (g *ghostMap) Underlying() types.Type { return g }
func (g *ghostMap) String() string         { return "ghostmap[" + g.key.String() + "]" + g.val.String() }

// Decls accumulates SMT declarations for one query family (one function VC).
type Decls struct {
	order    []string
	seen     map[string]bool
	tagOf    map[string]int // type tag per concrete type string
	tagTypes []types.Type
	strUF    bool // strings as uninterpreted sort
	heapSort map[string]string
	subKinds map[string]int
	ufLits   []string
	refHeap  map[string]bool // heaps whose cells hold references (pointers, maps, chans, funcs)
}

func newDecls() *Decls {
	d := &Decls{seen: map[string]bool{}, tagOf: map[string]int{}, heapSort: map[string]string{}, subKinds: map[string]int{}, refHeap: map[string]bool{}}
	d.add("Slice", "(declare-datatypes ((Slice 0)) (((mk-slice (s.arr Int) (s.off Int) (s.len Int) (s.cap Int)))))")
	d.add("Iface", "(declare-datatypes ((Iface 0)) (((mk-iface (i.tag Int) (i.val Int)))))")
	d.add("nil-iface", "(define-fun nil-iface () Iface (mk-iface 0 0))")
	d.add("nil-slice", "(define-fun nil-slice () Slice (mk-slice 0 0 0 0))")
	d.add("refkind", "(declare-fun refkind (Int) Int)")
	// sidx: index into a backing array = slice offset + index. An uninterpreted symbol (defined by an axiom) instead of
	// "+" keeps quantifier patterns over slice elements free of interpreted arithmetic.
	d.add("sidx", "(declare-fun sidx (Int Int) Int)\n(assert (forall ((o Int) (i Int)) (! (= (sidx o i) (+ o i)) :pattern ((sidx o i)))))")
	// rootref: the allocated object (or global) an address belongs to; interior addresses of nested structs map to their root
	d.add("rootref", "(declare-fun rootref (Int) Int)\n(assert (forall ((p Int)) (! (=> (> p (- 1000000)) (= (rootref p) p)) :pattern ((rootref p)))))")
	return d
}

func (d *Decls) add(key, decl string) {
	if d.seen[key] {
		return
	}
	d.seen[key] = true
	d.order = append(d.order, decl)
}

func (d *Decls) text() string {
	t := strings.Join(d.order, "\n") + "\n"
	if len(d.ufLits) > 1 {
		t += "(assert (distinct " + strings.Join(d.ufLits, " ") + "))\n"
	}
	return t
}

func sym(s string) string {
	ok := true
	for _, c := range s {
		if !(c >= 'a' && c <= 'z' || c >= 'A' && c <= 'Z' || c >= '0' && c <= '9' || c == '_' || c == '.' || c == '$' || c == '@' || c == '!' || c == '-') {
			ok = false
			break
		}
	}
	if ok && s != "" && !(s[0] >= '0' && s[0] <= '9') {
		return s
	}
	return "|" + strings.ReplaceAll(strings.ReplaceAll(s, "|", "!"), "\\", "!") + "|"
}

// typeName returns a short unique readable name for a Go type.
func typeName(t types.Type) string {
	return types.TypeString(t, func(p *types.Package) string {
		path := p.Path()
		path = strings.TrimPrefix(path, "github.com/AliceO2Group/Control/")
		return path
	})
}

func mangle(s string) string {
	r := strings.NewReplacer(" ", "", "*", "p.", "[]", "sl.", "[", "_", "]", "_", "/", ".", "{", "_", "}", "_", ";", "_", ",", "_", "(", "_", ")", "_", "\"", "", ":", "_")
	return r.Replace(s)
}

func isStructT(t types.Type) (*types.Struct, bool) {
	s, ok := t.Underlying().(*types.Struct)
	return s, ok
}

func isRefLike(t types.Type) bool {
	switch t.Underlying().(type) {
	case *types.Pointer, *types.Map, *types.Chan, *types.Signature:
		return true
	}
	if b, ok := t.Underlying().(*types.Basic); ok && b.Kind() == types.UnsafePointer {
		return true
	}
	return false
}

// sortOf returns the SMT sort for values of Go type t.
func (d *Decls) sortOf(t types.Type) string {
	if gm, ok := t.(*ghostMap); ok {
		return "(Array " + d.sortOf(gm.key) + " " + d.sortOf(gm.val) + ")"
	}
	switch u := t.Underlying().(type) {
	case *types.Basic:
		switch {
		case u.Info()&types.IsBoolean != 0:
			return "Bool"
		case u.Info()&types.IsInteger != 0:
			return "Int"
		case u.Info()&types.IsString != 0:
			if d.strUF {
				d.add("Str", "(declare-sort Str 0)")
				return "Str"
			}
			return "String"
		case u.Info()&types.IsFloat != 0:
			return "Real"
		case u.Kind() == types.UnsafePointer, u.Kind() == types.UntypedNil:
			return "Int"
		}
		d.add("Opaque", "(declare-sort Opaque 0)")
		return "Opaque"
	case *types.Pointer, *types.Map, *types.Chan, *types.Signature:
		return "Int"
	case *types.Slice:
		return "Slice"
	case *types.Interface:
		return "Iface"
	case *types.Array:
		return "(Array Int " + d.sortOf(u.Elem()) + ")"
	case *types.Struct:
		return d.structSort(t)
	case *types.Tuple:
		// tuples are handled component-wise by the generator; this is only reached for opaque uses
		d.add("Opaque", "(declare-sort Opaque 0)")
		return "Opaque"
	case *types.TypeParam:
		d.add("Opaque", "(declare-sort Opaque 0)")
		return "Opaque"
	}
	d.add("Opaque", "(declare-sort Opaque 0)")
	return "Opaque"
}

func (d *Decls) structSort(t types.Type) string {
	name := "S_" + mangle(typeName(t))
	if _, isNamed := t.(*types.Named); !isNamed {
		if _, isAlias := t.(*types.Alias); !isAlias {
			name = "S_anon_" + mangle(typeName(t))
			if len(name) > 80 {
				name = fmt.Sprintf("S_anon_%x", hashStr(name))
			}
		}
	}
	name = sym(name)
	key := "struct:" + name
	if d.seen[key] {
		return name
	}
	d.seen[key] = true // set early: recursion through pointers never re-enters (pointers are Int)
	st := t.Underlying().(*types.Struct)
	var fields []string
	for i := 0; i < st.NumFields(); i++ {
		fs := d.sortOf(st.Field(i).Type())
		fields = append(fields, fmt.Sprintf("(%s %s)", d.fieldSel(t, i), fs))
	}
	ctor := d.structCtor(t)
	if len(fields) == 0 {
		d.order = append(d.order, fmt.Sprintf("(declare-datatypes ((%s 0)) (((%s))))", name, ctor))
	} else {
		d.order = append(d.order, fmt.Sprintf("(declare-datatypes ((%s 0)) (((%s %s))))", name, ctor, strings.Join(fields, " ")))
	}
	return name
}

func hashStr(s string) uint32 {
	var h uint32 = 2166136261
	for i := 0; i < len(s); i++ {
		h ^= uint32(s[i])
		h *= 16777619
	}
	return h
}

func (d *Decls) structBase(t types.Type) string {
	n := mangle(typeName(t))
	if len(n) > 80 {
		n = fmt.Sprintf("anon_%x", hashStr(n))
	}
	return n
}

func (d *Decls) structCtor(t types.Type) string { return sym("mk-" + d.structBase(t)) }

func (d *Decls) fieldSel(t types.Type, i int) string {
	st := t.Underlying().(*types.Struct)
	return sym("f." + d.structBase(t) + "." + fieldName(st, i))
}

// fieldName: blank fields (several may exist in one struct) are distinguished by their index
func fieldName(st *types.Struct, i int) string {
	n := st.Field(i).Name()
	if n == "_" {
		return fmt.Sprintf("_%d", i)
	}
	return n
}

// Heap of field i of struct type t (for access through pointers): Array Int <fieldsort>.
// Struct-typed fields have no heap of their own: their address is sub_T_f(base).
func (d *Decls) fieldHeap(t types.Type, i int) string {
	st := t.Underlying().(*types.Struct)
	name := "H." + d.structBase(t) + "." + fieldName(st, i)
	if _, ok := d.heapSort[name]; !ok {
		d.heapSort[name] = "(Array Int " + d.sortOf(st.Field(i).Type()) + ")"
		d.refHeap[name] = isRefLike(st.Field(i).Type())
	}
	return name
}

// subRef returns the function symbol mapping a struct base ref to the interior ref of its struct-typed field i.
func (d *Decls) subRef(t types.Type, i int) string {
	st := t.Underlying().(*types.Struct)
	name := sym("sub." + d.structBase(t) + "." + fieldName(st, i))
	if !d.seen["sub:"+name] {
		k := len(d.subKinds) + 1
		d.subKinds[name] = k
		d.add("sub:"+name, fmt.Sprintf("(declare-fun %s (Int) Int)\n(declare-fun %s (Int) Int)\n(assert (forall ((p Int)) (! (and (< (%s p) (- 1000000)) (= (%s (%s p)) p) (= (refkind (%s p)) %d) (= (rootref (%s p)) (rootref p))) :pattern ((%s p)))))",
			name, sym("inv."+name), name, sym("inv."+name), name, name, k, name, name))
	}
	return name
}

// cell heap for pointer-to-non-struct: Array Int <sort>
func (d *Decls) cellHeap(elem types.Type) string {
	name := "HP." + mangle(typeName(elem))
	if len(name) > 90 {
		name = fmt.Sprintf("HP.%x", hashStr(name))
	}
	if _, ok := d.heapSort[name]; !ok {
		d.heapSort[name] = "(Array Int " + d.sortOf(elem) + ")"
		d.refHeap[name] = isRefLike(elem)
	}
	return name
}

// slice element heap: Array Int (Array Int <elemsort>)
func (d *Decls) sliceHeap(elem types.Type) string {
	name := "HS." + mangle(typeName(elem))
	if len(name) > 90 {
		name = fmt.Sprintf("HS.%x", hashStr(name))
	}
	if _, ok := d.heapSort[name]; !ok {
		d.heapSort[name] = "(Array Int (Array Int " + d.sortOf(elem) + "))"
	}
	return name
}

func (d *Decls) mapHeaps(m *types.Map) (dom, val, card string) {
	base := mangle(typeName(m.Key())) + "." + mangle(typeName(m.Elem()))
	if len(base) > 90 {
		base = fmt.Sprintf("%x", hashStr(base))
	}
	dom, val, card = "HMd."+base, "HMv."+base, "HMn."+base
	ks, vs := d.sortOf(m.Key()), d.sortOf(m.Elem())
	if _, ok := d.heapSort[dom]; !ok {
		d.heapSort[dom] = "(Array Int (Array " + ks + " Bool))"
		d.heapSort[val] = "(Array Int (Array " + ks + " " + vs + "))"
		d.heapSort[card] = "(Array Int Int)"
	}
	return
}

func (d *Decls) ghostHeap(name, sort string) string {
	n := "HG." + name
	if _, ok := d.heapSort[n]; !ok {
		d.heapSort[n] = sort
	}
	return n
}

// typeTag returns the integer tag for dynamic type t (used in interface values).
func (d *Decls) typeTag(t types.Type) int {
	k := typeName(t)
	if v, ok := d.tagOf[k]; ok {
		return v
	}
	v := len(d.tagOf) + 1
	d.tagOf[k] = v
	d.tagTypes = append(d.tagTypes, t)
	return v
}

// typeTagNamed: a tag for a type known by name only (types of packages that need not be loaded)
func (d *Decls) typeTagNamed(k string) int {
	if v, ok := d.tagOf[k]; ok {
		return v
	}
	v := len(d.tagOf) + 1
	d.tagOf[k] = v
	d.tagTypes = append(d.tagTypes, nil)
	return v
}

// chanCapDecl registers the state component that records the capacity every channel was made with.
func (d *Decls) chanCapDecl() {
	if _, ok := d.heapSort["$chancap"]; !ok {
		d.heapSort["$chancap"] = "(Array Int Int)"
	}
}

// box/unbox for non-pointer dynamic values in interfaces
func (d *Decls) boxFuns(t types.Type) (box, unbox string) {
	n := mangle(typeName(t))
	if len(n) > 80 {
		n = fmt.Sprintf("%x", hashStr(n))
	}
	box, unbox = sym("box."+n), sym("unbox."+n)
	s := d.sortOf(t)
	d.add("box:"+n, fmt.Sprintf("(declare-fun %s (%s) Int)\n(declare-fun %s (Int) %s)\n(assert (forall ((x %s)) (! (= (%s (%s x)) x) :pattern ((%s x)))))", box, s, unbox, s, s, unbox, box, box))
	return
}

// zero value term of Go type t
func (d *Decls) zero(t types.Type) string {
	if _, ok := t.(*ghostMap); ok {
		panic("zero of ghost map")
	}
	switch u := t.Underlying().(type) {
	case *types.Basic:
		switch {
		case u.Info()&types.IsBoolean != 0:
			return "false"
		case u.Info()&types.IsInteger != 0:
			return "0"
		case u.Info()&types.IsString != 0:
			if d.strUF {
				return d.strLit("")
			}
			return "\"\""
		case u.Info()&types.IsFloat != 0:
			return "0.0"
		}
		return "0"
	case *types.Pointer, *types.Map, *types.Chan, *types.Signature:
		return "0"
	case *types.Slice:
		return "(mk-slice 0 0 0 0)"
	case *types.Interface:
		return "(mk-iface 0 0)"
	case *types.Array:
		return d.constArray("Int", d.sortOf(u.Elem()), d.zero(u.Elem()))
	case *types.Struct:
		d.sortOf(t)
		if u.NumFields() == 0 {
			return d.structCtor(t)
		}
		var fs []string
		for i := 0; i < u.NumFields(); i++ {
			fs = append(fs, d.zero(u.Field(i).Type()))
		}
		return "(" + d.structCtor(t) + " " + strings.Join(fs, " ") + ")"
	}
	d.add("Opaque", "(declare-sort Opaque 0)")
	d.add("opaque-zero", "(declare-const opaque-zero Opaque)")
	return "opaque-zero"
}

func (d *Decls) strUFDecls() {
	d.sortOf(types.Typ[types.String])
	d.add("str.cat", "(declare-fun str.cat (Str Str) Str)\n(declare-fun str.lt (Str Str) Bool)\n(declare-fun strlen (Str) Int)\n(assert (forall ((s Str)) (! (>= (strlen s) 0) :pattern ((strlen s)))))")
}

// constArray: an array with every cell equal to val. cvc5 accepts "as const" only for literal values, so when val
// mentions declared constants (uninterpreted string literals) a named array with a defining axiom is used instead.
func (d *Decls) constArray(idxSort, elemSort, val string) string {
	if !strings.Contains(val, "str!") && !strings.Contains(val, "opaque") {
		return fmt.Sprintf("((as const (Array %s %s)) %s)", idxSort, elemSort, val)
	}
	name := sym(fmt.Sprintf("zeroarr!%x", hashStr(idxSort+elemSort+val)))
	d.add("zeroarr:"+name, fmt.Sprintf("(declare-const %s (Array %s %s))\n(assert (forall ((i %s)) (! (= (select %s i) %s) :pattern ((select %s i)))))", name, idxSort, elemSort, idxSort, name, val, name))
	return name
}

func (d *Decls) strLit(s string) string {
	if !d.strUF {
		return smtString(s)
	}
	name := sym(fmt.Sprintf("str!%x", hashStr(s)) + "!" + mangle(s))
	d.strUFDecls()
	if !d.seen["strlit:"+s] {
		d.ufLits = append(d.ufLits, name)
	}
	decl := fmt.Sprintf("(declare-const %s Str)\n(assert (= (strlen %s) %d))", name, name, len(s))
	if s == "" {
		// the empty string is the only string of length 0
		decl += fmt.Sprintf("\n(assert (forall ((s Str)) (! (=> (= (strlen s) 0) (= s %s)) :pattern ((strlen s)))))", name)
	}
	d.add("strlit:"+s, decl)
	return name
}

func smtString(s string) string {
	var b strings.Builder
	b.WriteByte('"')
	for _, r := range s {
		switch {
		case r == '"':
			b.WriteString("\"\"")
		case r < 32 || r > 126 || r == '\\':
			fmt.Fprintf(&b, "\\u{%x}", r)
		default:
			b.WriteRune(r)
		}
	}
	b.WriteByte('"')
	return b.String()
}

// intRange returns (lo, hi, ok) for bounded integer types
func intRange(t types.Type) (string, string, bool) {
	b, ok := t.Underlying().(*types.Basic)
	if !ok || b.Info()&types.IsInteger == 0 {
		return "", "", false
	}
	switch b.Kind() {
	case types.Int8:
		return "(- 128)", "127", true
	case types.Int16:
		return "(- 32768)", "32767", true
	case types.Int32:
		return "(- 2147483648)", "2147483647", true
	case types.Int, types.Int64:
		return "(- 9223372036854775808)", "9223372036854775807", true
	case types.Uint8:
		return "0", "255", true
	case types.Uint16:
		return "0", "65535", true
	case types.Uint32:
		return "0", "4294967295", true
	case types.Uint, types.Uint64, types.Uintptr:
		return "0", "18446744073709551615", true
	}
	return "", "", false
}

func isUnsigned(t types.Type) bool {
	b, ok := t.Underlying().(*types.Basic)
	return ok && b.Info()&types.IsUnsigned != 0
}

func uintModulus(t types.Type) string {
	b, _ := t.Underlying().(*types.Basic)
	switch b.Kind() {
	case types.Uint8:
		return "256"
	case types.Uint16:
		return "65536"
	case types.Uint32:
		return "4294967296"
	}
	return "18446744073709551616"
}

func sortedKeys(m map[string]string) []string {
	var ks []string
	for k := range m {
		ks = append(ks, k)
	}
	sort.Strings(ks)
	return ks
}
