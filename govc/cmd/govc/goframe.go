package main

// Goroutine frame obligations (DESIGN §4.2): an ownership argument, discharged per `go` statement, that the body of a
// spawned closure writes only (a) objects it allocated itself, (b) per-instance slots of a shared slice, or (c) shared
// locations while holding a mutex. A write to a shared map or captured variable without a lock is reported: two instances
// of the closure (or the closure and its spawner) may then write the same location concurrently.

import (
	"fmt"
	"go/token"
	"go/types"

	"golang.org/x/tools/go/ssa"
)

func isLockCall(c *ssa.CallCommon, names ...string) bool {
	f := c.StaticCallee()
	if f == nil {
		return false
	}
	s := f.String()
	for _, n := range names {
		if s == "(*sync.Mutex)."+n || s == "(*sync.RWMutex)."+n {
			return true
		}
	}
	return false
}

func instrIndex(ins ssa.Instruction) int {
	for i, x := range ins.Block().Instrs {
		if x == ins {
			return i
		}
	}
	return -1
}

func instrDominates(a, b ssa.Instruction) bool {
	if a.Block() == b.Block() {
		return instrIndex(a) < instrIndex(b)
	}
	return a.Block().Dominates(b.Block())
}

// heldLockAt: is some mutex held at instruction ins (Lock dominates ins, no Unlock in between on the dominator path)?
func heldLockAt(fn *ssa.Function, ins ssa.Instruction) bool {
	var locks, unlocks []ssa.Instruction
	for _, b := range fn.Blocks {
		for _, x := range b.Instrs {
			if c, ok := x.(*ssa.Call); ok {
				if isLockCall(&c.Call, "Lock") {
					locks = append(locks, x)
				}
				if isLockCall(&c.Call, "Unlock") {
					unlocks = append(unlocks, x)
				}
			}
		}
	}
	for _, l := range locks {
		if !instrDominates(l, ins) {
			continue
		}
		released := false
		for _, u := range unlocks {
			if instrDominates(l, u) && instrDominates(u, ins) {
				released = true
			}
		}
		if !released {
			return true
		}
	}
	return false
}

type goSite struct {
	goIns   *ssa.Go
	closure *ssa.Function
	mc      *ssa.MakeClosure
	inLoop  *loopInfo
}

// sharedOrigin decides whether value v (as seen inside closure cl spawned at site) denotes the same object in two
// instances of the closure. Returns (shared, description).
func sharedOrigin(site goSite, v ssa.Value, depth int) (bool, string) {
	if depth > 6 {
		return true, "unknown origin"
	}
	switch x := v.(type) {
	case *ssa.Alloc:
		if x.Parent() == site.closure {
			return false, "allocated by the goroutine"
		}
		return true, "variable " + x.Comment
	case *ssa.MakeMap, *ssa.MakeSlice, *ssa.MakeChan:
		if x.(ssa.Instruction).Parent() == site.closure {
			return false, "allocated by the goroutine"
		}
		return true, "object of the spawner"
	case *ssa.UnOp:
		if x.Op == token.MUL {
			return sharedOrigin(site, x.X, depth+1)
		}
	case *ssa.FreeVar:
		// captured variable: per-iteration only if declared inside the loop that spawns the goroutine
		if site.mc != nil {
			for i, fv := range site.closure.FreeVars {
				if fv == x && i < len(site.mc.Bindings) {
					if a, ok := site.mc.Bindings[i].(*ssa.Alloc); ok && site.inLoop != nil && site.inLoop.blocks[a.Block()] {
						return false, "per-iteration variable " + x.Name()
					}
				}
			}
		}
		return true, "captured variable " + x.Name()
	case *ssa.Parameter:
		if x.Parent() == site.closure {
			// bound at the go statement
			for i, p := range site.closure.Params {
				if p == x && i < len(site.goIns.Call.Args) {
					arg := site.goIns.Call.Args[i]
					if ins, ok := arg.(ssa.Instruction); ok && site.inLoop != nil && site.inLoop.blocks[ins.Block()] {
						switch arg.(type) {
						case *ssa.Alloc, *ssa.MakeMap, *ssa.MakeSlice:
							return false, "per-iteration object"
						}
					}
					return true, "argument " + x.Name() + " (may be the same object in two instances)"
				}
			}
		}
		return true, "parameter " + x.Name()
	case *ssa.FieldAddr:
		return sharedOrigin(site, x.X, depth+1)
	case *ssa.IndexAddr:
		return sharedOrigin(site, x.X, depth+1)
	case *ssa.Global:
		return true, "global " + x.Name()
	}
	return true, "unknown origin"
}

// perInstanceIndex: the index value differs between two instances of the closure (it is the loop's range index / counter
// handed to the goroutine as an argument or captured per iteration).
func perInstanceIndex(site goSite, idx ssa.Value) bool {
	if site.inLoop == nil {
		return false
	}
	var actual ssa.Value
	switch x := idx.(type) {
	case *ssa.Parameter:
		for i, p := range site.closure.Params {
			if p == x && i < len(site.goIns.Call.Args) {
				actual = site.goIns.Call.Args[i]
			}
		}
	case *ssa.UnOp:
		if fv, ok := x.X.(*ssa.FreeVar); ok && x.Op == token.MUL && site.mc != nil {
			for i, f := range site.closure.FreeVars {
				if f == fv {
					if a, ok := site.mc.Bindings[i].(*ssa.Alloc); ok && site.inLoop.blocks[a.Block()] {
						// per-iteration copy of the loop variable: find what is stored into it
						for _, r := range *a.Referrers() {
							if st, ok := r.(*ssa.Store); ok && st.Addr == ssa.Value(a) {
								actual = st.Val
							}
						}
					}
				}
			}
		}
	case *ssa.FreeVar:
		if site.mc != nil {
			for i, f := range site.closure.FreeVars {
				if f == x {
					actual = site.mc.Bindings[i]
				}
			}
		}
	}
	if actual == nil {
		return false
	}
	// the loop's index: phi of the spawning loop's header, or phi+1
	isLoopPhi := func(v ssa.Value) bool {
		for _, p := range site.inLoop.phis {
			if ssa.Value(p) == v {
				return true
			}
		}
		return false
	}
	if isLoopPhi(actual) {
		return true
	}
	if b, ok := actual.(*ssa.BinOp); ok && b.Op == token.ADD && isLoopPhi(b.X) {
		return true
	}
	return false
}

// goFrameObligations analyses every go statement of fn.
func (g *Gen) goFrameObligations(vc *VC, fn *ssa.Function) {
	loops, _ := findLoops(fn)
	n := 0
	for _, b := range fn.Blocks {
		for _, ins := range b.Instrs {
			gi, ok := ins.(*ssa.Go)
			if !ok {
				continue
			}
			n++
			site := goSite{goIns: gi}
			if mc, ok := gi.Call.Value.(*ssa.MakeClosure); ok {
				site.mc = mc
				site.closure = mc.Fn.(*ssa.Function)
			} else if f := gi.Call.StaticCallee(); f != nil {
				site.closure = f
			}
			for _, l := range loops {
				if l.blocks[b] && (site.inLoop == nil || len(l.blocks) < len(site.inLoop.blocks)) {
					site.inLoop = l
				}
			}
			if site.closure == nil || len(site.closure.Blocks) == 0 {
				vc.addObl(&Obligation{Name: fmt.Sprintf("goframe:%d:unknown-body", n), Kind: "goframe", PC: "true", Goal: "false", Src: "spawned function has no analysable body"})
				continue
			}
			w := 0
			for _, cb := range site.closure.Blocks {
				for _, ci := range cb.Instrs {
					var shared bool
					var what, kind string
					switch x := ci.(type) {
					case *ssa.MapUpdate:
						shared, what = sharedOrigin(site, x.Map, 0)
						kind = "map write"
					case *ssa.Store:
						if ia, ok := x.Addr.(*ssa.IndexAddr); ok {
							sh, wh := sharedOrigin(site, ia.X, 0)
							if sh && perInstanceIndex(site, ia.Index) {
								shared, what = false, "per-instance slot of "+wh
							} else {
								shared, what = sh, "element of "+wh
							}
						} else {
							shared, what = sharedOrigin(site, x.Addr, 0)
						}
						kind = "store"
					default:
						continue
					}
					w++
					goal := "true"
					why := what
					if shared {
						if heldLockAt(site.closure, ci) {
							why += " (under a held mutex)"
						} else {
							goal = "false"
							why += " WITHOUT a lock: instances of the goroutine (spawned in a loop) or the spawner may write it concurrently"
							if site.inLoop == nil {
								// single goroutine: still races with the spawner unless joined; keep the obligation
							}
						}
					}
					vc.addObl(&Obligation{Name: fmt.Sprintf("goframe:%d:%s:%d", n, shortKey(site.closure.Name()), w), Kind: "goframe", PC: "true", Goal: goal,
						Src: fmt.Sprintf("%s at %s writes %s", kind, g.prog.Fset.Position(ci.Pos()), why)})
				}
			}
			if w == 0 {
				vc.addObl(&Obligation{Name: fmt.Sprintf("goframe:%d:%s:nowrites", n, shortKey(site.closure.Name())), Kind: "goframe", PC: "true", Goal: "true", Src: "spawned closure performs no direct heap write"})
			}
		}
	}
	_ = types.Typ
}
