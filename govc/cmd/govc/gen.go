package main

import (
	"fmt"
	"go/ast"
	"go/parser"
	"go/token"
	"go/types"
	"os"
	"path/filepath"
	"sort"
	"strings"

	"golang.org/x/tools/go/packages"
	"golang.org/x/tools/go/ssa"
	"golang.org/x/tools/go/ssa/ssautil"
)

type paramInfo struct {
	name string
	ty   types.Type
}

type sigInfo struct {
	params  []paramInfo
	results []paramInfo
	fn      *types.Func
}

// currentProp: the property being checked (set before loadGen; selects the lock files read while anchors are resolved).
var currentProp string

type missingAnchor struct {
	fc  *FuncContract
	why string
}

type Gen struct {
	recordedFuncs   map[string]bool // named functions that existed, in the packages under contract, when the lock was written
	recordedPkgs    map[string]bool
	extractedMemo   map[*ssa.Function]bool
	recordedLocals  map[string]map[string]string // function -> local name -> definition fingerprints recorded with the lock
	smallHelperMemo map[*ssa.Function]bool
	missing         []missingAnchor
	prog            *ssa.Program
	pkgs            []*packages.Package
	byPath          map[string]*packages.Package
	ssaPkgs         map[string]*ssa.Package
	contracts       map[string]*FuncContract // by key
	allFC           []*FuncContract
	ghosts          map[string]*GhostFunc // pkgPath + "." + name
	lemmas          []*Lemma
	sigs            map[*FuncContract]*sigInfo
	fnOf            map[*FuncContract]*ssa.Function
	fnIDs           map[string]int
	globIDs         map[string]int
	noEffectPat     []string
	inlinePat       []string
	int64Ranges     bool
	repoDir         string
	loadErrs        []string
	files           []*ContractFile
	strUF           bool
	ghostGlobals    map[string]*TypeExpr // pkgPath.name
	immutables      [][3]string          // pkgpath, type, field: struct fields never written after construction (assumed)
}

func loadGen(repoDir string, patterns []string, extDir string) (*Gen, error) {
	cfg := &packages.Config{Mode: packages.LoadAllSyntax, Dir: repoDir, BuildFlags: []string{"-tags=verif"},
		Env: append(os.Environ(), "GOFLAGS=-mod=mod", "GOPROXY=off", "GOSUMDB=off", "GOTOOLCHAIN=local")}
	pkgs, err := packages.Load(cfg, patterns...)
	if err != nil {
		return nil, err
	}
	g := &Gen{byPath: map[string]*packages.Package{}, ssaPkgs: map[string]*ssa.Package{}, contracts: map[string]*FuncContract{}, ghosts: map[string]*GhostFunc{},
		sigs: map[*FuncContract]*sigInfo{}, fnOf: map[*FuncContract]*ssa.Function{}, fnIDs: map[string]int{}, globIDs: map[string]int{}, repoDir: repoDir}
	if currentProp != "" {
		g.loadFuncs(currentProp)
	}
	var errs []string
	packages.Visit(pkgs, nil, func(p *packages.Package) {
		g.byPath[p.PkgPath] = p
		for _, e := range p.Errors {
			if strings.HasPrefix(p.PkgPath, "github.com/AliceO2Group/Control") {
				errs = append(errs, e.Error())
			}
		}
	})
	if len(errs) > 0 {
		g.loadErrs = errs
		return g, fmt.Errorf("tree does not type-check: %s", strings.Join(errs, "; "))
	}
	prog, _ := ssautil.AllPackages(pkgs, ssa.InstantiateGenerics|ssa.GlobalDebug)
	prog.Build()
	g.prog = prog
	g.pkgs = pkgs
	for _, sp := range prog.AllPackages() {
		g.ssaPkgs[sp.Pkg.Path()] = sp
	}
	// contracts in repo packages (comment-only files behind the build tag)
	for path, p := range g.byPath {
		if !strings.HasPrefix(path, "github.com/AliceO2Group/Control") {
			continue
		}
		for i, f := range p.Syntax {
			fname := p.CompiledGoFiles[i]
			if !strings.HasSuffix(fname, "contracts_verif.go") {
				continue
			}
			var lines []string
			for _, cg := range f.Comments {
				for _, c := range cg.List {
					if strings.HasPrefix(c.Text, "//@") {
						lines = append(lines, strings.TrimPrefix(c.Text, "//@"))
					}
				}
			}
			cf, err := parseContractLines(path, fname, lines)
			if err != nil {
				return g, err
			}
			g.files = append(g.files, cf)
		}
	}
	// external assumed contracts
	if extDir != "" {
		exts, _ := filepath.Glob(filepath.Join(extDir, "*.gvc"))
		sort.Strings(exts)
		for _, f := range exts {
			b, err := os.ReadFile(f)
			if err != nil {
				return g, err
			}
			// split into per-package chunks on "pkg <path>" lines
			curPkg := ""
			var lines []string
			flush := func() error {
				if len(lines) == 0 {
					return nil
				}
				cf, err := parseContractLines(curPkg, f, lines)
				if err != nil {
					return err
				}
				g.files = append(g.files, cf)
				lines = nil
				return nil
			}
			for _, l := range strings.Split(string(b), "\n") {
				t := strings.TrimSpace(l)
				if !strings.HasPrefix(t, "//@") {
					if strings.HasPrefix(t, "noeffect ") {
						g.noEffectPat = append(g.noEffectPat, strings.Fields(t)[1:]...)
					}
					if strings.HasPrefix(t, "autoinline ") {
						g.inlinePat = append(g.inlinePat, strings.Fields(t)[1:]...)
					}
					if strings.HasPrefix(t, "immutable ") {
						f := strings.Fields(t)
						if len(f) == 4 {
							g.immutables = append(g.immutables, [3]string{f[1], f[2], f[3]})
						}
					}
					continue
				}
				t = strings.TrimPrefix(t, "//@")
				if strings.HasPrefix(strings.TrimSpace(t), "pkg ") {
					if err := flush(); err != nil {
						return g, err
					}
					curPkg = strings.TrimSpace(strings.TrimPrefix(strings.TrimSpace(t), "pkg "))
					continue
				}
				lines = append(lines, t)
			}
			if err := flush(); err != nil {
				return g, err
			}
		}
	}
	g.ghostGlobals = map[string]*TypeExpr{}
	for _, cf := range g.files {
		for _, gv := range cf.GhostVars {
			g.ghostGlobals[cf.PkgPath+"."+gv.Name] = gv.T
		}
	}
	for _, cf := range g.files {
		for _, gf := range cf.Ghosts {
			g.ghosts[gf.PkgPath+"."+gf.Name] = gf
		}
		g.lemmas = append(g.lemmas, cf.Lemmas...)
	}
	for _, cf := range g.files {
		for _, fc := range cf.Funcs {
			if err := g.resolveContract(fc); err != nil {
				if fc.Trusted {
					// trusted contracts for packages that are not loaded are skipped silently
					continue
				}
				if strings.Contains(err.Error(), "contract anchor not found") {
					// the function (or closure) this contract is written on is gone: a failed obligation of its own
					// ("anchor"), reported for the contract's properties; everything else is still checked
					g.missing = append(g.missing, missingAnchor{fc, err.Error()})
					continue
				}
				return g, fmt.Errorf("%s: %v", cf.Path, err)
			}
			if old, dup := g.contracts[fc.Key]; dup {
				return g, fmt.Errorf("duplicate contract for %s (%s and %s)", fc.Key, old.SrcFile, fc.SrcFile)
			}
			g.contracts[fc.Key] = fc
			if i := strings.Index(fc.Key, "["); i >= 0 {
				if j := strings.LastIndex(fc.Key, "]"); j > i {
					if _, clash := g.contracts[fc.Key[:i]+fc.Key[j+1:]]; !clash {
						g.contracts[fc.Key[:i]+fc.Key[j+1:]] = fc
					}
				}
			}
			g.allFC = append(g.allFC, fc)
		}
	}
	return g, nil
}

func (g *Gen) typesPkg(path string) *types.Package {
	if p, ok := g.byPath[path]; ok {
		return p.Types
	}
	return nil
}

// importedPkgWith: like importedPkg, but when several imported packages share the name (different files of the package
// may import different packages under one name) prefers the one that declares ident (or a ghost of that name).
func (g *Gen) importedPkgWith(pkg *types.Package, name, ident string) *types.Package {
	var cands []*types.Package
	if pkg != nil {
		for _, imp := range pkg.Imports() {
			if imp.Name() == name {
				cands = append(cands, imp)
			}
		}
		if pp, ok := g.byPath[pkg.Path()]; ok {
			for _, f := range pp.Syntax {
				for _, is := range f.Imports {
					if is.Name != nil && is.Name.Name == name {
						if p, ok := g.byPath[strings.Trim(is.Path.Value, "\"")]; ok {
							cands = append(cands, p.Types)
						}
					}
				}
			}
		}
	}
	for _, c := range cands {
		if c.Scope().Lookup(ident) != nil || g.ghosts[c.Path()+"."+ident] != nil || g.ghostGlobals[c.Path()+"."+ident] != nil || g.contracts[c.Path()+"."+ident] != nil {
			return c
		}
	}
	if len(cands) > 0 {
		return cands[0]
	}
	return g.importedPkg(pkg, name)
}

// importedPkg resolves a package name as imported by pkg (or any loaded package with that name as fallback).
func (g *Gen) importedPkg(pkg *types.Package, name string) *types.Package {
	if pkg != nil {
		for _, imp := range pkg.Imports() {
			if imp.Name() == name {
				return imp
			}
		}
		// import aliases: search syntax
		if pp, ok := g.byPath[pkg.Path()]; ok {
			for _, f := range pp.Syntax {
				for _, is := range f.Imports {
					if is.Name != nil && is.Name.Name == name {
						path := strings.Trim(is.Path.Value, "\"")
						if p, ok := g.byPath[path]; ok {
							return p.Types
						}
					}
				}
			}
		}
	}
	var cands []*types.Package
	for _, p := range g.byPath {
		if p.Types != nil && p.Types.Name() == name {
			cands = append(cands, p.Types)
		}
	}
	if len(cands) == 1 {
		return cands[0]
	}
	return nil
}

func (g *Gen) globalFor(v *types.Var) *ssa.Global {
	if v.Pkg() == nil {
		return nil
	}
	sp := g.ssaPkgs[v.Pkg().Path()]
	if sp == nil {
		return nil
	}
	if m, ok := sp.Members[v.Name()].(*ssa.Global); ok {
		return m
	}
	return nil
}

func (g *Gen) ghostFunc(pkgPath, name string) *GhostFunc {
	if gf, ok := g.ghosts[pkgPath+"."+name]; ok {
		return gf
	}
	return nil
}

// resolveContract finds the function a contract talks about and fixes its key and signature.
func (g *Gen) resolveContract(fc *FuncContract) error {
	p := g.byPath[fc.PkgPath]
	if p == nil {
		return fmt.Errorf("package %s not loaded (contract %s)", fc.PkgPath, fc.Header+fc.Closure)
	}
	if fc.Closure != "" {
		return g.resolveClosure(fc, p)
	}
	if fc.FieldOf != "" {
		return g.resolveFuncField(fc, p)
	}
	src := "package p\n" + fc.Header + " {}\n"
	fset := token.NewFileSet()
	f, err := parser.ParseFile(fset, "hdr.go", src, 0)
	if err != nil {
		return fmt.Errorf("bad contract header %q: %v", fc.Header, err)
	}
	fd := f.Decls[0].(*ast.FuncDecl)
	var obj *types.Func
	if fd.Recv == nil {
		o := p.Types.Scope().Lookup(fd.Name.Name)
		fn, ok := o.(*types.Func)
		if !ok {
			return fmt.Errorf("contract anchor not found: function %s in %s", fd.Name.Name, fc.PkgPath)
		}
		obj = fn
	} else {
		rt := fd.Recv.List[0].Type
		ptr := false
		if s, ok := rt.(*ast.StarExpr); ok {
			ptr = true
			rt = s.X
		}
		if ix, ok := rt.(*ast.IndexExpr); ok { // generic receiver T[X]
			rt = ix.X
		}
		if ix, ok := rt.(*ast.IndexListExpr); ok { // generic receiver T[X, Y]
			rt = ix.X
		}
		id, ok := rt.(*ast.Ident)
		if !ok {
			return fmt.Errorf("unsupported receiver in contract header %q", fc.Header)
		}
		o := p.Types.Scope().Lookup(id.Name)
		tn, ok := o.(*types.TypeName)
		if !ok {
			return fmt.Errorf("contract anchor not found: type %s in %s", id.Name, fc.PkgPath)
		}
		var recvT types.Type = tn.Type()
		if ptr {
			recvT = types.NewPointer(recvT)
		}
		mo, _, _ := types.LookupFieldOrMethod(recvT, true, p.Types, fd.Name.Name)
		fn, ok := mo.(*types.Func)
		if !ok {
			return fmt.Errorf("contract anchor not found: method %s.%s in %s", id.Name, fd.Name.Name, fc.PkgPath)
		}
		obj = fn
	}
	fc.Key = obj.FullName()
	sig := obj.Type().(*types.Signature)
	si := &sigInfo{fn: obj}
	if sig.Recv() != nil {
		name := sig.Recv().Name()
		if fd.Recv != nil && len(fd.Recv.List[0].Names) > 0 {
			name = fd.Recv.List[0].Names[0].Name
		}
		if name == "" || name == "_" {
			name = "recv"
		}
		si.params = append(si.params, paramInfo{name, sig.Recv().Type()})
	}
	// parameter names from the header when given, else from the signature
	var hdrNames []string
	if fd.Type.Params != nil {
		for _, fl := range fd.Type.Params.List {
			if len(fl.Names) == 0 {
				hdrNames = append(hdrNames, "")
			}
			for _, n := range fl.Names {
				hdrNames = append(hdrNames, n.Name)
			}
		}
	}
	if len(hdrNames) != sig.Params().Len() {
		return fmt.Errorf("contract header %q does not match the function's parameters (%d vs %d): contract anchor changed", fc.Header, len(hdrNames), sig.Params().Len())
	}
	for i := 0; i < sig.Params().Len(); i++ {
		name := hdrNames[i]
		if name == "" || name == "_" {
			name = sig.Params().At(i).Name()
		}
		if name == "" || name == "_" {
			name = fmt.Sprintf("arg%d", i)
		}
		si.params = append(si.params, paramInfo{name, sig.Params().At(i).Type()})
	}
	var resNames []string
	if fd.Type.Results != nil {
		for _, fl := range fd.Type.Results.List {
			if len(fl.Names) == 0 {
				resNames = append(resNames, "")
			}
			for _, n := range fl.Names {
				resNames = append(resNames, n.Name)
			}
		}
	}
	if len(resNames) != sig.Results().Len() {
		return fmt.Errorf("contract header %q does not match the function's results: contract anchor changed", fc.Header)
	}
	for i := 0; i < sig.Results().Len(); i++ {
		name := resNames[i]
		if name == "" || name == "_" {
			name = sig.Results().At(i).Name()
		}
		if name == "" || name == "_" {
			name = fmt.Sprintf("result%d", i)
			if i == 0 {
				name = "result"
			}
		}
		si.results = append(si.results, paramInfo{name, sig.Results().At(i).Type()})
	}
	g.sigs[fc] = si
	if fn := g.prog.FuncValue(obj); fn != nil {
		g.fnOf[fc] = fn
	}
	return nil
}

// closure <outer> <role>   where role is "mapkey" | #N
func (g *Gen) resolveClosure(fc *FuncContract, p *packages.Package) error {
	f := strings.Fields(fc.Closure)
	if len(f) != 2 {
		return fmt.Errorf("bad closure spec %q (want: closure <outerFunc> <\"mapkey\"|#N>)", fc.Closure)
	}
	sp := g.ssaPkgs[fc.PkgPath]
	var outer *ssa.Function
	name := f[0]
	if strings.Contains(name, ".") {
		// (*T).m or T.m
		nm := strings.TrimPrefix(name, "(")
		nm = strings.ReplaceAll(nm, ")", "")
		ptr := strings.HasPrefix(nm, "*")
		nm = strings.TrimPrefix(nm, "*")
		parts := strings.SplitN(nm, ".", 2)
		if tn, ok := p.Types.Scope().Lookup(parts[0]).(*types.TypeName); ok {
			var rt types.Type = tn.Type()
			if ptr {
				rt = types.NewPointer(rt)
			}
			if mo, _, _ := types.LookupFieldOrMethod(rt, true, p.Types, parts[1]); mo != nil {
				if fn, ok := mo.(*types.Func); ok {
					outer = g.prog.FuncValue(fn)
				}
			}
		}
	} else if sp != nil {
		outer = sp.Func(name)
	}
	if outer == nil {
		return fmt.Errorf("contract anchor not found: outer function %s of closure in %s", name, fc.PkgPath)
	}
	var target *ssa.Function
	role := f[1]
	if strings.HasPrefix(role, "#") {
		// "#2" or nested "#2#1"
		cur := outer
		okPath := true
		for _, part := range strings.Split(role[1:], "#") {
			var n int
			fmt.Sscanf(part, "%d", &n)
			if fl := g.funcLiterals(cur); n >= 1 && n <= len(fl) {
				cur = fl[n-1]
			} else {
				okPath = false
				break
			}
		}
		if okPath && cur != outer {
			target = cur
		}
	} else {
		key := strings.Trim(role, "\"")
		for _, b := range outer.Blocks {
			for _, ins := range b.Instrs {
				mu, ok := ins.(*ssa.MapUpdate)
				if !ok {
					continue
				}
				kc, ok := mu.Key.(*ssa.Const)
				if !ok || kc.Value == nil || kc.Value.Kind().String() != "String" {
					continue
				}
				if strings.Trim(kc.Value.ExactString(), "\"") != key {
					continue
				}
				v := mu.Value
				for {
					switch x := v.(type) {
					case *ssa.ChangeType:
						v = x.X
						continue
					case *ssa.MakeInterface:
						v = x.X
						continue
					}
					break
				}
				if mc, ok := v.(*ssa.MakeClosure); ok {
					target = mc.Fn.(*ssa.Function)
				} else if fn, ok := v.(*ssa.Function); ok {
					target = fn
				}
			}
		}
	}
	if target == nil {
		return fmt.Errorf("contract anchor not found: closure %s of %s", role, name)
	}
	fc.Key = target.String()
	si := &sigInfo{}
	for _, prm := range target.Params {
		si.params = append(si.params, paramInfo{prm.Name(), prm.Type()})
	}
	res := target.Signature.Results()
	for i := 0; i < res.Len(); i++ {
		name := res.At(i).Name()
		if name == "" || name == "_" {
			name = fmt.Sprintf("result%d", i)
			if i == 0 {
				name = "result"
			}
		}
		si.results = append(si.results, paramInfo{name, res.At(i).Type()})
	}
	g.sigs[fc] = si
	g.fnOf[fc] = target
	return nil
}

// isNewFunc: a named function of a package under contract that did not exist when the lock was written.
func (g *Gen) isNewFunc(f *ssa.Function) bool {
	return f != nil && f.Pkg != nil && f.Parent() == nil && f.Synthetic == "" && len(g.recordedFuncs) > 0 &&
		g.recordedPkgs[f.Pkg.Pkg.Path()] && !g.recordedFuncs[f.String()]
}

// funcLiterals: the function literals of fn in source order, as closure contracts number them ("#1", "#2", ...). A
// literal that was lifted, as it is, into a new named function keeps its number: a new function that fn uses as a
// value (or starts with go / defer) counts at the place where it is used.
func (g *Gen) funcLiterals(fn *ssa.Function) []*ssa.Function {
	type item struct {
		f   *ssa.Function
		pos token.Pos
	}
	var items []item
	for _, a := range fn.AnonFuncs {
		items = append(items, item{a, a.Pos()})
	}
	lifted := false
	seen := map[*ssa.Function]bool{}
	for _, b := range fn.Blocks {
		for _, ins := range b.Instrs {
			var refs []*ssa.Function
			switch x := ins.(type) {
			case *ssa.Go:
				if f := x.Call.StaticCallee(); f != nil {
					refs = append(refs, f)
				}
			case *ssa.Defer:
				if f := x.Call.StaticCallee(); f != nil {
					refs = append(refs, f)
				}
			}
			var ops []*ssa.Value
			for _, op := range ins.Operands(ops) {
				if op == nil || *op == nil {
					continue
				}
				if f, ok := (*op).(*ssa.Function); ok {
					if ci, isCall := ins.(ssa.CallInstruction); isCall && ci.Common().Value == f {
						continue // called, not used as a value
					}
					refs = append(refs, f)
				}
			}
			for _, f := range refs {
				if g.isNewFunc(f) && !seen[f] {
					seen[f] = true
					lifted = true
					items = append(items, item{f, ins.Pos()})
				}
			}
		}
	}
	if lifted {
		sort.SliceStable(items, func(i, j int) bool { return items[i].pos < items[j].pos })
	}
	var out []*ssa.Function
	for _, it := range items {
		out = append(out, it.f)
	}
	return out
}

// litName: the structural name of a function literal ("outer$2$1"), by its number among the literals of its parent as
// funcLiterals counts them; a literal lifted into a new named function keeps the name it had in ctx, where it is used.
func (g *Gen) litName(f, ctx *ssa.Function) string {
	parent := f.Parent()
	if parent == nil {
		if !g.isNewFunc(f) || ctx == nil {
			return f.String()
		}
		parent = ctx
	}
	for i, l := range g.funcLiterals(parent) {
		if l == f {
			return fmt.Sprintf("%s$%d", g.litName(parent, nil), i+1)
		}
	}
	return f.String()
}

func (g *Gen) sigOf(fc *FuncContract) *sigInfo { return g.sigs[fc] }

func (g *Gen) contractFor(f *ssa.Function) *FuncContract {
	if fc, ok := g.contracts[f.String()]; ok {
		return fc
	}
	if o := f.Origin(); o != nil && o != f {
		if fc, ok := g.contracts[o.String()]; ok {
			return fc
		}
	}
	if obj, ok := f.Object().(*types.Func); ok && obj != nil {
		if fc, ok := g.contracts[obj.FullName()]; ok {
			return fc
		}
	}
	return nil
}

func (g *Gen) contractForNames(names []string) *FuncContract {
	// generic interfaces: also try the names without type arguments
	var extra []string
	for _, n := range names {
		if i := strings.Index(n, "["); i >= 0 {
			if j := strings.LastIndex(n, "]"); j > i {
				extra = append(extra, n[:i]+n[j+1:])
			}
		}
	}
	names = append(append([]string{}, names...), extra...)
	for _, n := range names {
		if fc, ok := g.contracts[n]; ok {
			return fc
		}
		if fc, ok := g.contracts["("+n[:max(0, strings.LastIndex(n, "."))]+")"+n[max(0, strings.LastIndex(n, ".")):]]; ok {
			return fc
		}
	}
	return nil
}

func (g *Gen) contractByShortName(pkgPath, name string) *FuncContract {
	if fc, ok := g.contracts[pkgPath+"."+name]; ok {
		return fc
	}
	return nil
}

func (g *Gen) methodContract(recv types.Type, name string) *FuncContract {
	if recv == nil {
		return nil
	}
	var pkg *types.Package
	t := recv
	if p, ok := t.Underlying().(*types.Pointer); ok {
		t = p.Elem()
	}
	if n, ok := t.(*types.Named); ok {
		pkg = n.Obj().Pkg()
	}
	mo, _, _ := types.LookupFieldOrMethod(recv, true, pkg, name)
	fn, ok := mo.(*types.Func)
	if !ok {
		return nil
	}
	if fc, ok := g.contracts[fn.FullName()]; ok {
		return fc
	}
	return nil
}

func matchAny(pats []string, names []string) bool {
	for _, n := range names {
		sn := shortKey(n)
		for _, p := range pats {
			if p == n || p == sn {
				return true
			}
			if strings.HasSuffix(p, "*") && (strings.HasPrefix(n, p[:len(p)-1]) || strings.HasPrefix(sn, p[:len(p)-1])) {
				return true
			}
		}
	}
	return false
}

func (g *Gen) noEffect(names []string) bool { return matchAny(g.noEffectPat, names) }

func (g *Gen) autoInline(f *ssa.Function, names []string) bool {
	if matchAny(g.inlinePat, names) {
		return true
	}
	return g.smallHelper(f)
}

// smallHelper: a function of the repository itself that carries no contract, is small, has no loop and starts no
// goroutine is executed symbolically at its call sites instead of being abstracted (so that extracting a few lines into
// a helper, or calling a small existing helper, does not make the caller's proof fail for lack of a contract).
func (g *Gen) smallHelper(f *ssa.Function) bool {
	if f == nil || f.Pkg == nil || len(f.Blocks) == 0 || !strings.HasPrefix(f.Pkg.Pkg.Path(), "github.com/AliceO2Group/Control") {
		return false
	}
	if g.contractFor(f) != nil || f.Signature.Recv() != nil && f.Signature.TypeParams() != nil {
		return false
	}
	if v, ok := g.smallHelperMemo[f]; ok {
		return v
	}
	ok := true
	n := 0
	for _, b := range f.Blocks {
		for _, s := range b.Succs {
			if s.Dominates(b) {
				ok = false // loop
			}
		}
		for _, ins := range b.Instrs {
			n++
			switch ins.(type) {
			case *ssa.Go, *ssa.Defer, *ssa.Select, *ssa.Panic, *ssa.RunDefers:
				ok = false
			}
		}
	}
	if n > 120 {
		ok = false
	}
	if g.smallHelperMemo == nil {
		g.smallHelperMemo = map[*ssa.Function]bool{}
	}
	g.smallHelperMemo[f] = ok
	return ok
}

// extractedFn: a named function of a package under contract that did not exist when the lock was written and carries no
// contract: code that was moved out of some function ("extract function"). It is executed symbolically at its call
// sites, loops included, as part of the caller's text: the caller's loop invariants and site clauses apply inside it.
func (g *Gen) extractedFn(f *ssa.Function) bool {
	if f == nil || len(f.Blocks) == 0 || len(g.recordedFuncs) == 0 {
		return false
	}
	// an instance of a generic function is judged by the generic function it is an instance of
	base := f
	if o := f.Origin(); o != nil {
		base = o
	}
	if base.Pkg == nil || base.Parent() != nil || base.Synthetic != "" {
		return false
	}
	if v, ok := g.extractedMemo[f]; ok {
		return v
	}
	ok := g.recordedPkgs[base.Pkg.Pkg.Path()] && !g.recordedFuncs[base.String()] && g.contractFor(f) == nil && g.contractFor(base) == nil
	if ok {
		n := 0
		for _, b := range f.Blocks {
			for _, ins := range b.Instrs {
				n++
				switch ins.(type) {
				case *ssa.Go, *ssa.Defer, *ssa.Select, *ssa.RunDefers:
					ok = false
				}
			}
		}
		if n > 600 {
			ok = false
		}
		if _, err := findLoops(f); err != nil {
			ok = false
		}
	}
	if g.extractedMemo == nil {
		g.extractedMemo = map[*ssa.Function]bool{}
	}
	g.extractedMemo[f] = ok
	return ok
}

func (g *Gen) recvNoHavoc(fr *Frame) bool {
	return fr.c != nil && fr.c.Opts["recv-nohavoc"] == "true"
}

func max(a, b int) int {
	if a > b {
		return a
	}
	return b
}

// resolveFuncField: contract for dynamic calls through a function-typed struct field.
func (g *Gen) resolveFuncField(fc *FuncContract, p *packages.Package) error {
	tn, ok := p.Types.Scope().Lookup(fc.FieldOf).(*types.TypeName)
	if !ok {
		return fmt.Errorf("contract anchor not found: type %s in %s", fc.FieldOf, fc.PkgPath)
	}
	st, ok := tn.Type().Underlying().(*types.Struct)
	if !ok {
		return fmt.Errorf("funcfield: %s is not a struct", fc.FieldOf)
	}
	var sig *types.Signature
	for i := 0; i < st.NumFields(); i++ {
		if st.Field(i).Name() == fc.FieldName {
			sig, _ = st.Field(i).Type().Underlying().(*types.Signature)
		}
	}
	if sig == nil {
		return fmt.Errorf("contract anchor not found: function-typed field %s.%s", fc.FieldOf, fc.FieldName)
	}
	fset := token.NewFileSet()
	f, err := parser.ParseFile(fset, "hdr.go", "package p\n"+fc.Header+" {}\n", 0)
	if err != nil {
		return fmt.Errorf("bad funcfield header %q: %v", fc.Header, err)
	}
	fd := f.Decls[0].(*ast.FuncDecl)
	var names, rnames []string
	if fd.Type.Params != nil {
		for _, fl := range fd.Type.Params.List {
			for _, n := range fl.Names {
				names = append(names, n.Name)
			}
		}
	}
	if fd.Type.Results != nil {
		for _, fl := range fd.Type.Results.List {
			for _, n := range fl.Names {
				rnames = append(rnames, n.Name)
			}
		}
	}
	if len(names) != sig.Params().Len() || len(rnames) != sig.Results().Len() {
		return fmt.Errorf("funcfield header %q does not match the field's signature (name every parameter and result)", fc.Header)
	}
	si := &sigInfo{}
	for i := range names {
		si.params = append(si.params, paramInfo{names[i], sig.Params().At(i).Type()})
	}
	for i := range rnames {
		si.results = append(si.results, paramInfo{rnames[i], sig.Results().At(i).Type()})
	}
	g.sigs[fc] = si
	fc.Key = "field:" + fc.PkgPath + "." + fc.FieldOf + "." + fc.FieldName
	fc.Trusted = true
	return nil
}

// fieldCallKey: key of the funcfield contract for a dynamic call whose function value is loaded from a struct field.
func fieldCallKey(v ssa.Value) string {
	u, ok := v.(*ssa.UnOp)
	if !ok {
		return ""
	}
	fa, ok := u.X.(*ssa.FieldAddr)
	if !ok {
		return ""
	}
	st := fa.X.Type().Underlying().(*types.Pointer).Elem()
	n, ok := st.(*types.Named)
	if !ok || n.Obj().Pkg() == nil {
		return ""
	}
	f := st.Underlying().(*types.Struct).Field(fa.Field)
	return "field:" + n.Obj().Pkg().Path() + "." + n.Obj().Name() + "." + f.Name()
}
