package main

import (
	"fmt"
	"strconv"
	"strings"
	"unicode"
)

// ---------------------------------------------------------------------------
// Lexer

type tok struct {
	k string // "id", "int", "str", "op", "eof"
	v string
	p int
}

func lexSpec(s string) ([]tok, error) {
	var out []tok
	i := 0
	ops := []string{"<==>", "==>", "::", "==", "!=", "<=", ">=", "&&", "||", "+", "-", "*", "/", "%", "<", ">", "!", "(", ")", "[", "]", ",", ".", ":", "#", "=", ";", "?", "{", "}"}
	for i < len(s) {
		c := rune(s[i])
		if unicode.IsSpace(c) {
			i++
			continue
		}
		if c == '/' && i+1 < len(s) && s[i+1] == '/' {
			// trailing comment inside contract
			for i < len(s) && s[i] != '\n' {
				i++
			}
			continue
		}
		if unicode.IsLetter(c) || c == '_' || c == '$' {
			j := i
			for j < len(s) && (unicode.IsLetter(rune(s[j])) || unicode.IsDigit(rune(s[j])) || s[j] == '_' || s[j] == '$') {
				j++
			}
			out = append(out, tok{"id", s[i:j], i})
			i = j
			continue
		}
		if unicode.IsDigit(c) {
			j := i
			for j < len(s) && (unicode.IsDigit(rune(s[j])) || s[j] == '_') {
				j++
			}
			out = append(out, tok{"int", strings.ReplaceAll(s[i:j], "_", ""), i})
			i = j
			continue
		}
		if c == '"' {
			j := i + 1
			for j < len(s) && s[j] != '"' {
				if s[j] == '\\' {
					j++
				}
				j++
			}
			if j >= len(s) {
				return nil, fmt.Errorf("unterminated string at %d in %q", i, s)
			}
			v, err := strconv.Unquote(s[i : j+1])
			if err != nil {
				return nil, fmt.Errorf("bad string %s: %v", s[i:j+1], err)
			}
			out = append(out, tok{"str", v, i})
			i = j + 1
			continue
		}
		matched := false
		for _, op := range ops {
			if strings.HasPrefix(s[i:], op) {
				out = append(out, tok{"op", op, i})
				i += len(op)
				matched = true
				break
			}
		}
		if !matched {
			return nil, fmt.Errorf("unexpected character %q at %d in %q", c, i, s)
		}
	}
	out = append(out, tok{"eof", "", len(s)})
	return out, nil
}

// ---------------------------------------------------------------------------
// Expression parser

type sparser struct {
	toks []tok
	pos  int
	src  string
}

func parseSpecExpr(s string) (e Expr, err error) {
	toks, err := lexSpec(s)
	if err != nil {
		return nil, err
	}
	p := &sparser{toks: toks, src: s}
	defer func() {
		if r := recover(); r != nil {
			if pe, ok := r.(parseErr); ok {
				err = fmt.Errorf("%s (in %q)", string(pe), s)
				return
			}
			panic(r)
		}
	}()
	e = p.expr()
	if p.peek().k != "eof" {
		p.fail("trailing tokens starting at %q", p.peek().v)
	}
	return e, nil
}

type parseErr string

func (p *sparser) fail(f string, a ...interface{}) { panic(parseErr(fmt.Sprintf(f, a...))) }
func (p *sparser) peek() tok                       { return p.toks[p.pos] }
func (p *sparser) next() tok                       { t := p.toks[p.pos]; p.pos++; return t }
func (p *sparser) isOp(v string) bool              { t := p.peek(); return t.k == "op" && t.v == v }
func (p *sparser) isId(v string) bool              { t := p.peek(); return t.k == "id" && t.v == v }
func (p *sparser) expectOp(v string) {
	if !p.isOp(v) {
		p.fail("expected %q, got %q", v, p.peek().v)
	}
	p.next()
}
func (p *sparser) expectId() string {
	if p.peek().k != "id" {
		p.fail("expected identifier, got %q", p.peek().v)
	}
	return p.next().v
}

func (p *sparser) expr() Expr { return p.iff() }

func (p *sparser) iff() Expr {
	x := p.implies()
	for p.isOp("<==>") {
		p.next()
		y := p.implies()
		x = &EBinary{"<==>", x, y}
	}
	return x
}

func (p *sparser) implies() Expr {
	x := p.or()
	if p.isOp("==>") {
		p.next()
		y := p.implies()
		return &EBinary{"==>", x, y}
	}
	return x
}

func (p *sparser) or() Expr {
	x := p.and()
	for p.isOp("||") {
		p.next()
		x = &EBinary{"||", x, p.and()}
	}
	return x
}

func (p *sparser) and() Expr {
	x := p.cmp()
	for p.isOp("&&") {
		p.next()
		x = &EBinary{"&&", x, p.cmp()}
	}
	return x
}

func (p *sparser) cmp() Expr {
	x := p.add()
	for {
		t := p.peek()
		if t.k == "op" && (t.v == "==" || t.v == "!=" || t.v == "<" || t.v == "<=" || t.v == ">" || t.v == ">=") {
			p.next()
			x = &EBinary{t.v, x, p.add()}
			continue
		}
		if t.k == "id" && t.v == "in" {
			p.next()
			x = &EBinary{"in", x, p.add()}
			continue
		}
		if t.k == "id" && t.v == "is" {
			p.next()
			x = &EIs{x, p.typ()}
			continue
		}
		return x
	}
}

func (p *sparser) add() Expr {
	x := p.mul()
	for p.isOp("+") || p.isOp("-") {
		op := p.next().v
		x = &EBinary{op, x, p.mul()}
	}
	return x
}

func (p *sparser) mul() Expr {
	x := p.unary()
	for p.isOp("*") || p.isOp("/") || p.isOp("%") {
		op := p.next().v
		x = &EBinary{op, x, p.unary()}
	}
	return x
}

func (p *sparser) unary() Expr {
	if p.isOp("!") || p.isOp("-") {
		op := p.next().v
		return &EUnary{op, p.unary()}
	}
	return p.postfix()
}

func (p *sparser) postfix() Expr {
	x := p.primary()
	for {
		switch {
		case p.isOp("("):
			p.next()
			var args []Expr
			for !p.isOp(")") {
				args = append(args, p.expr())
				if p.isOp(",") {
					p.next()
				} else {
					break
				}
			}
			p.expectOp(")")
			x = &ECall{x, args}
		case p.isOp("["):
			p.next()
			var lo, hi Expr
			if p.isOp(":") {
				p.next()
				if !p.isOp("]") {
					hi = p.expr()
				}
				p.expectOp("]")
				x = &ESlice{x, nil, hi}
				continue
			}
			lo = p.expr()
			if p.isOp(":") {
				p.next()
				if !p.isOp("]") {
					hi = p.expr()
				}
				p.expectOp("]")
				x = &ESlice{x, lo, hi}
				continue
			}
			p.expectOp("]")
			x = &EIndex{x, lo}
		case p.isOp("."):
			p.next()
			if p.isOp("(") {
				p.next()
				t := p.typ()
				p.expectOp(")")
				x = &ETypeAssert{x, t}
				continue
			}
			x = &ESel{x, p.expectId()}
		default:
			return x
		}
	}
}

func (p *sparser) typ() *TypeExpr {
	switch {
	case p.isOp("*"):
		p.next()
		return &TypeExpr{Kind: "ptr", Elem: p.typ()}
	case p.isOp("["):
		p.next()
		p.expectOp("]")
		return &TypeExpr{Kind: "slice", Elem: p.typ()}
	case p.isId("map"):
		p.next()
		p.expectOp("[")
		k := p.typ()
		p.expectOp("]")
		return &TypeExpr{Kind: "map", Key: k, Elem: p.typ()}
	}
	n := p.expectId()
	te := &TypeExpr{Kind: "name", Name: n}
	if p.isOp(".") {
		p.next()
		te = &TypeExpr{Kind: "name", Pkg: n, Name: p.expectId()}
	}
	if p.isOp("[") {
		// explicit type arguments of a generic named type: gera.WrapMap[string, string]
		p.next()
		for {
			te.Args = append(te.Args, p.typ())
			if p.isOp(",") {
				p.next()
				continue
			}
			break
		}
		p.expectOp("]")
	}
	return te
}

func (p *sparser) qvars() []QVar {
	var vs []QVar
	for {
		names := []string{p.expectId()}
		for p.isOp(",") {
			p.next()
			names = append(names, p.expectId())
		}
		t := p.typ()
		for _, n := range names {
			vs = append(vs, QVar{n, t})
		}
		if p.isOp(",") {
			p.next()
			continue
		}
		break
	}
	return vs
}

func (p *sparser) primary() Expr {
	t := p.peek()
	switch t.k {
	case "int":
		p.next()
		return &EInt{t.v}
	case "str":
		p.next()
		return &EStr{t.v}
	case "id":
		switch t.v {
		case "true", "false":
			p.next()
			return &EBool{t.v == "true"}
		case "nil":
			p.next()
			return &ENil{}
		case "forall", "exists":
			p.next()
			vs := p.qvars()
			p.expectOp("::")
			body := p.expr()
			return &EQuant{Forall: t.v == "forall", Vars: vs, Body: body}
		case "if":
			p.next()
			c := p.expr()
			if !p.isId("then") {
				p.fail("expected 'then'")
			}
			p.next()
			a := p.expr()
			if !p.isId("else") {
				p.fail("expected 'else'")
			}
			p.next()
			b := p.expr()
			return &EIte{c, a, b}
		case "let":
			p.next()
			n := p.expectId()
			p.expectOp("=")
			v := p.expr()
			if !p.isId("in") {
				p.fail("expected 'in'")
			}
			p.next()
			b := p.expr()
			return &ELet{n, v, b}
		case "old":
			p.next()
			p.expectOp("(")
			e := p.expr()
			p.expectOp(")")
			return &EOld{e}
		}
		p.next()
		return &EIdent{t.v}
	case "op":
		if t.v == "(" {
			p.next()
			e := p.expr()
			p.expectOp(")")
			return e
		}
		if t.v == "#" {
			p.next()
			return &EHash{p.expectId()}
		}
	}
	p.fail("unexpected token %q", t.v)
	return nil
}

// ---------------------------------------------------------------------------
// Contract file parser: input is the list of //@ lines (prefix stripped).

var clauseKeywords = map[string]bool{
	"property": true, "requires": true, "ensures": true, "modifies": true, "pure": true,
	"inline": true, "loop": true, "on": true, "ghostvar": true, "safety": true,
	"noverify": true, "opt": true, "axiom": true, "uses": true, "literal": true, "closedworld": true, "goframes": true,
}
var blockKeywords = map[string]bool{
	"func": true, "closure": true, "ghost": true, "lemma": true, "trusted": true, "funcfield": true,
}

type ContractFile struct {
	GhostVars []QVar
	PkgPath   string
	Path      string
	Funcs     []*FuncContract
	Ghosts    []*GhostFunc
	Lemmas    []*Lemma
}

func firstWord(s string) string {
	s = strings.TrimSpace(s)
	for i, c := range s {
		if !(unicode.IsLetter(c) || c == '_') {
			return s[:i]
		}
	}
	return s
}

// groupLines merges continuation lines: a logical line starts with a block or clause keyword.
func groupLines(lines []string) []string {
	var out []string
	for _, l := range lines {
		t := strings.TrimSpace(l)
		if t == "" {
			continue
		}
		w := firstWord(t)
		if _, r := splitTag(t); r != t {
			w = firstWord(r)
		}
		if blockKeywords[w] || clauseKeywords[w] || len(out) == 0 {
			out = append(out, t)
		} else {
			out[len(out)-1] += "\n" + t
		}
	}
	return out
}

func parseContractLines(pkgPath, path string, lines []string) (*ContractFile, error) {
	cf := &ContractFile{PkgPath: pkgPath, Path: path}
	var cur *FuncContract
	var curGhost *GhostFunc
	var curLemma *Lemma
	counters := map[string]int{}
	for _, l := range groupLines(lines) {
		w := firstWord(l)
		rest := strings.TrimSpace(l[len(w):])
		// "[C14] ensures ..." / "[C14] on call ...": the obligations of this clause belong to the listed properties only
		// (a function under contract for several properties otherwise contributes all its obligations to each of them)
		clauseTag = ""
		if tag, r := splitTag(l); r != l && cur != nil {
			clauseTag = tag + " "
			l = r
			w = firstWord(l)
			rest = strings.TrimSpace(l[len(w):])
		}
		mkClause := func(kind, src string) (*Clause, error) {
			e, err := parseSpecExpr(src)
			if err != nil {
				return nil, fmt.Errorf("%s: %v", path, err)
			}
			counters[kind]++
			return &Clause{Kind: kind, E: e, Src: clauseTag + strings.Join(strings.Fields(src), " "), Name: fmt.Sprintf("%s:%d", kind, counters[kind])}, nil
		}
		switch w {
		case "trusted", "func", "closure", "funcfield":
			curGhost, curLemma = nil, nil
			counters = map[string]int{}
			cur = &FuncContract{PkgPath: pkgPath, Loops: map[int]*LoopSpec{}, Safety: map[string]bool{}, Opts: map[string]string{}, SrcFile: path}
			if w == "trusted" {
				cur.Trusted = true
				rest = strings.TrimSpace(strings.TrimPrefix(rest, "func"))
				cur.Header = "func " + rest
			} else if w == "func" {
				cur.Header = "func " + rest
			} else if w == "funcfield" {
				// funcfield Type.Field(params) (results)
				dot := strings.Index(rest, ".")
				lp := strings.Index(rest, "(")
				if dot < 0 || lp < dot {
					return nil, fmt.Errorf("%s: bad funcfield header %q", path, rest)
				}
				cur.FieldOf = strings.TrimSpace(rest[:dot])
				cur.FieldName = strings.TrimSpace(rest[dot+1 : lp])
				cur.Header = "func " + cur.FieldName + rest[lp:]
			} else {
				cur.Closure = rest
			}
			cf.Funcs = append(cf.Funcs, cur)
		case "ghost":
			// ghost pure func name(params) T [= expr]   |  ghost rec func ...   |  ghost var name T
			cur, curLemma = nil, nil
			counters = map[string]int{}
			if f := strings.Fields(rest); len(f) >= 3 && f[0] == "var" {
				toks, err := lexSpec(strings.Join(f[2:], " "))
				if err != nil {
					return nil, err
				}
				p := &sparser{toks: toks}
				var te *TypeExpr
				func() {
					defer func() {
						if r := recover(); r != nil {
							err = fmt.Errorf("%v", r)
						}
					}()
					te = p.typ()
				}()
				if err != nil {
					return nil, fmt.Errorf("%s: bad ghost var: %v", path, err)
				}
				cf.GhostVars = append(cf.GhostVars, QVar{f[1], te})
				curGhost = nil
				continue
			}
			g, err := parseGhostFunc(rest)
			if err != nil {
				return nil, fmt.Errorf("%s: %v", path, err)
			}
			g.PkgPath = pkgPath
			cf.Ghosts = append(cf.Ghosts, g)
			curGhost = g
		case "lemma":
			cur, curGhost = nil, nil
			// lemma name [Cxx,Cyy] : expr
			i := strings.Index(rest, ":")
			if i < 0 {
				return nil, fmt.Errorf("%s: lemma without ':' : %s", path, rest)
			}
			head := strings.Fields(rest[:i])
			lm := &Lemma{Name: head[0], Src: strings.Join(strings.Fields(rest[i+1:]), " "), PkgPath: pkgPath}
			for hi := 1; hi < len(head); hi++ {
				h := head[hi]
				if h == "induction" && hi+3 < len(head)+1 && hi+2 < len(head) && head[hi+2] == "from" {
					lm.IndVar = head[hi+1]
					fe, err := parseSpecExpr(strings.Join(head[hi+3:], " "))
					if err != nil {
						return nil, fmt.Errorf("%s: lemma %s: %v", path, lm.Name, err)
					}
					lm.IndFrom = fe
					break
				}
				lm.Props = append(lm.Props, strings.Split(strings.Trim(h, "[]"), ",")...)
			}
			e, err := parseSpecExpr(rest[i+1:])
			if err != nil {
				return nil, fmt.Errorf("%s: lemma %s: %v", path, lm.Name, err)
			}
			lm.E = e
			cf.Lemmas = append(cf.Lemmas, lm)
			curLemma = lm
		case "uses":
			if curLemma != nil {
				curLemma.Uses = append(curLemma.Uses, strings.Fields(strings.ReplaceAll(rest, ",", " "))...)
			} else if cur != nil {
				cur.Uses = append(cur.Uses, strings.Fields(strings.ReplaceAll(rest, ",", " "))...)
			} else {
				return nil, fmt.Errorf("%s: 'uses' outside lemma/func", path)
			}
		case "axiom":
			if curGhost == nil {
				return nil, fmt.Errorf("%s: 'axiom' outside ghost func", path)
			}
			c, err := mkClause("axiom", rest)
			if err != nil {
				return nil, err
			}
			curGhost.Axioms = append(curGhost.Axioms, c)
		default:
			if cur == nil {
				return nil, fmt.Errorf("%s: clause %q outside a func block", path, l)
			}
			switch w {
			case "property":
				cur.Props = append(cur.Props, strings.Fields(strings.ReplaceAll(rest, ",", " "))...)
			case "requires":
				c, err := mkClause("requires", rest)
				if err != nil {
					return nil, err
				}
				cur.Requires = append(cur.Requires, c)
			case "ensures":
				c, err := mkClause("ensures", rest)
				if err != nil {
					return nil, err
				}
				cur.Ensures = append(cur.Ensures, c)
			case "modifies":
				cur.HasMod = true
				if rest == "*" {
					cur.ModAll = true
					break
				}
				if rest == "nothing" {
					break
				}
				for _, part := range splitTop(rest, ',') {
					e, err := parseSpecExpr(part)
					if err != nil {
						return nil, fmt.Errorf("%s: %v", path, err)
					}
					cur.Modifies = append(cur.Modifies, e)
				}
			case "pure":
				cur.Pure = true
				cur.HasMod = true
			case "inline":
				cur.Pure = true
				cur.Inline = true
				cur.HasMod = true
			case "noverify":
				cur.NoVerify = true
			case "closedworld":
				cur.ClosedWorld = true
			case "goframes":
				cur.GoFrames = true
			case "literal":
				// literal <pkg.Type> == "<canonical text>"
				f := strings.SplitN(rest, "==", 2)
				if len(f) != 2 {
					return nil, fmt.Errorf("%s: bad literal clause: %s", path, rest)
				}
				want, err := strconv.Unquote(strings.TrimSpace(strings.ReplaceAll(f[1], "\n", "")))
				if err != nil {
					return nil, fmt.Errorf("%s: bad literal clause text: %v", path, err)
				}
				cur.Literals = append(cur.Literals, [2]string{strings.TrimSpace(f[0]), want})
			case "safety":
				for _, s := range strings.Fields(strings.ReplaceAll(rest, ",", " ")) {
					cur.Safety[s] = true
				}
			case "opt":
				kv := strings.SplitN(rest, "=", 2)
				if len(kv) == 2 {
					cur.Opts[strings.TrimSpace(kv[0])] = strings.TrimSpace(kv[1])
				} else {
					cur.Opts[strings.TrimSpace(rest)] = "true"
				}
			case "ghostvar":
				// ghostvar name T = init
				eqi := indexTopEq(rest)
				if eqi < 0 {
					return nil, fmt.Errorf("%s: bad ghostvar: %s", path, rest)
				}
				f := []string{rest[:eqi], rest[eqi+1:]}
				hd := strings.Fields(f[0])
				if len(hd) != 2 || len(f) != 2 {
					return nil, fmt.Errorf("%s: bad ghostvar: %s", path, rest)
				}
				p := &sparser{}
				toks, err := lexSpec(hd[1])
				if err != nil {
					return nil, err
				}
				p.toks = toks
				var te *TypeExpr
				func() {
					defer func() {
						if r := recover(); r != nil {
							err = fmt.Errorf("%v", r)
						}
					}()
					te = p.typ()
				}()
				if err != nil {
					return nil, fmt.Errorf("%s: bad ghostvar type: %v", path, err)
				}
				ie, err := parseSpecExpr(f[1])
				if err != nil {
					return nil, fmt.Errorf("%s: %v", path, err)
				}
				cur.Ghosts = append(cur.Ghosts, &GhostVar{Name: hd[0], T: te, Init: ie})
			case "loop":
				// loop N invariant e | loop N decreases e | loop N modifies a, b
				f := strings.Fields(rest)
				if len(f) < 3 {
					return nil, fmt.Errorf("%s: bad loop clause: %s", path, rest)
				}
				n, err := strconv.Atoi(f[0])
				if err != nil {
					return nil, fmt.Errorf("%s: bad loop ordinal: %s", path, rest)
				}
				ls := cur.Loops[n]
				if ls == nil {
					ls = &LoopSpec{Ordinal: n}
					cur.Loops[n] = ls
				}
				body := strings.TrimSpace(rest[strings.Index(rest, f[1])+len(f[1]):])
				switch f[1] {
				case "invariant":
					e, err := parseSpecExpr(body)
					if err != nil {
						return nil, fmt.Errorf("%s: %v", path, err)
					}
					ls.Invariants = append(ls.Invariants, &Clause{Kind: "invariant", E: e, Src: clauseTag + strings.Join(strings.Fields(body), " "), Name: fmt.Sprintf("%d", len(ls.Invariants)+1)})
				case "decreases":
					e, err := parseSpecExpr(body)
					if err != nil {
						return nil, fmt.Errorf("%s: %v", path, err)
					}
					ls.Decreases = e
				case "modifies":
					for _, part := range splitTop(body, ',') {
						e, err := parseSpecExpr(part)
						if err != nil {
							return nil, fmt.Errorf("%s: %v", path, err)
						}
						ls.Modifies = append(ls.Modifies, e)
					}
				default:
					return nil, fmt.Errorf("%s: bad loop clause kind %q", path, f[1])
				}
			case "on":
				sa, err := parseSite(rest)
				if err != nil {
					return nil, fmt.Errorf("%s: %v", path, err)
				}
				sa.Ordinal = len(cur.Sites) + 1
				cur.Sites = append(cur.Sites, sa)
			}
		}
	}
	return cf, nil
}

// splitTop splits on sep at nesting depth 0 (parens/brackets), outside strings.
func splitTop(s string, sep rune) []string {
	var out []string
	depth := 0
	inStr := false
	start := 0
	for i, c := range s {
		switch {
		case inStr:
			if c == '"' && (i == 0 || s[i-1] != '\\') {
				inStr = false
			}
		case c == '"':
			inStr = true
		case c == '(' || c == '[':
			depth++
		case c == ')' || c == ']':
			depth--
		case c == sep && depth == 0:
			out = append(out, strings.TrimSpace(s[start:i]))
			start = i + 1
		}
	}
	out = append(out, strings.TrimSpace(s[start:]))
	return out
}

// splitTag splits a leading "[C14]" / "[C13,C14]" property tag off a contract line.
func splitTag(l string) (tag, rest string) {
	t := strings.TrimSpace(l)
	if !strings.HasPrefix(t, "[C") {
		return "", l
	}
	i := strings.Index(t, "]")
	if i < 0 {
		return "", l
	}
	return t[:i+1], strings.TrimSpace(t[i+1:])
}

// clauseTag: property tag of the contract line being parsed ("[C14] " or "")
var clauseTag string

// clauseProps returns the properties a clause source is restricted to (nil: all properties of its function).
func clauseProps(src string) []string {
	if !strings.HasPrefix(src, "[") {
		return nil
	}
	i := strings.Index(src, "]")
	if i < 0 {
		return nil
	}
	return strings.Fields(strings.ReplaceAll(src[1:i], ",", " "))
}

// "pure func name(a T, b U) R = body" or "func name(...) R" (uninterpreted)
func parseGhostFunc(rest string) (*GhostFunc, error) {
	g := &GhostFunc{Src: rest}
	f := strings.Fields(rest)
	i := 0
	for i < len(f) && (f[i] == "pure" || f[i] == "rec" || f[i] == "fuel") {
		if f[i] == "rec" {
			g.Rec = true
		}
		if f[i] == "fuel" {
			g.Rec = true
			g.Fuel = true
		}
		i++
	}
	if i >= len(f) || f[i] != "func" {
		return nil, fmt.Errorf("bad ghost declaration: %s", rest)
	}
	s := strings.TrimSpace(rest[strings.Index(rest, "func")+4:])
	lp := strings.Index(s, "(")
	if lp < 0 {
		return nil, fmt.Errorf("bad ghost func: %s", rest)
	}
	g.Name = strings.TrimSpace(s[:lp])
	// find matching paren
	depth, rp := 0, -1
	for j := lp; j < len(s); j++ {
		if s[j] == '(' {
			depth++
		} else if s[j] == ')' {
			depth--
			if depth == 0 {
				rp = j
				break
			}
		}
	}
	if rp < 0 {
		return nil, fmt.Errorf("bad ghost func params: %s", rest)
	}
	ps := strings.TrimSpace(s[lp+1 : rp])
	if ps != "" {
		toks, err := lexSpec(ps)
		if err != nil {
			return nil, err
		}
		p := &sparser{toks: toks, src: ps}
		var perr error
		func() {
			defer func() {
				if r := recover(); r != nil {
					perr = fmt.Errorf("%v", r)
				}
			}()
			g.Params = p.qvars()
		}()
		if perr != nil {
			return nil, perr
		}
	}
	after := strings.TrimSpace(s[rp+1:])
	var tstr, body string
	if eq := indexTopEq(after); eq >= 0 {
		tstr, body = strings.TrimSpace(after[:eq]), strings.TrimSpace(after[eq+1:])
	} else {
		tstr = after
	}
	toks, err := lexSpec(tstr)
	if err != nil {
		return nil, err
	}
	p := &sparser{toks: toks, src: tstr}
	var perr error
	func() {
		defer func() {
			if r := recover(); r != nil {
				perr = fmt.Errorf("%v", r)
			}
		}()
		g.Result = p.typ()
	}()
	if perr != nil {
		return nil, fmt.Errorf("ghost func %s result type: %v", g.Name, perr)
	}
	if body != "" {
		e, err := parseSpecExpr(body)
		if err != nil {
			return nil, fmt.Errorf("ghost func %s: %v", g.Name, err)
		}
		g.Body = e
	}
	return g, nil
}

// index of first '=' that is not part of ==, <=, >=, !=, ==>
func indexTopEq(s string) int {
	for i := 0; i < len(s); i++ {
		if s[i] == '=' {
			if i+1 < len(s) && s[i+1] == '=' {
				i++
				continue
			}
			if i > 0 && (s[i-1] == '=' || s[i-1] == '<' || s[i-1] == '>' || s[i-1] == '!') {
				continue
			}
			return i
		}
	}
	return -1
}

// on call <pattern> [when <expr>] : act ; act
// on aftercall <pattern> ...
// on return : act
func parseSite(rest string) (*SiteAction, error) {
	sa := &SiteAction{Src: strings.Join(strings.Fields(rest), " ")}
	f := strings.Fields(rest)
	if len(f) < 2 {
		return nil, fmt.Errorf("bad site clause: %s", rest)
	}
	sa.When = f[0]
	body := strings.TrimSpace(rest[len(f[0]):])
	// split head : actions  (first top-level ':' not part of '::')
	ci := -1
	depth := 0
	for i := 0; i < len(body); i++ {
		switch body[i] {
		case '(', '[':
			depth++
		case ')', ']':
			depth--
		case '"':
			for i++; i < len(body) && body[i] != '"'; i++ {
			}
		case ':':
			if i+1 < len(body) && body[i+1] == ':' {
				i++
				continue
			}
			if depth == 0 && ci < 0 {
				ci = i
			}
		}
	}
	if ci < 0 {
		return nil, fmt.Errorf("site clause without ':' : %s", rest)
	}
	head := strings.TrimSpace(body[:ci])
	acts := body[ci+1:]
	if wi := strings.Index(head, " when "); wi >= 0 {
		c, err := parseSpecExpr(head[wi+6:])
		if err != nil {
			return nil, err
		}
		sa.Cond = c
		head = strings.TrimSpace(head[:wi])
	}
	sa.Pattern = head
	for _, a := range splitTop(acts, ';') {
		a = strings.TrimSpace(a)
		if a == "" {
			continue
		}
		w := firstWord(a)
		switch w {
		case "havoc":
			e, err := parseSpecExpr(a[len(w):])
			if err != nil {
				return nil, err
			}
			sa.Acts = append(sa.Acts, SiteAct{Kind: "havoc", E: e, Src: strings.Join(strings.Fields(a), " ")})
		case "assert", "assume":
			e, err := parseSpecExpr(a[len(w):])
			if err != nil {
				return nil, err
			}
			sa.Acts = append(sa.Acts, SiteAct{Kind: w, E: e, Src: clauseTag + strings.Join(strings.Fields(a), " ")})
		default:
			eq := indexTopEq(a)
			if eq < 0 {
				return nil, fmt.Errorf("bad site action %q", a)
			}
			e, err := parseSpecExpr(a[eq+1:])
			if err != nil {
				return nil, err
			}
			lhs := strings.TrimSpace(a[:eq])
			act := SiteAct{Kind: "set", Var: lhs, E: e, Src: strings.Join(strings.Fields(a), " ")}
			if lb := strings.Index(lhs, "["); lb > 0 && strings.HasSuffix(lhs, "]") {
				ie, err := parseSpecExpr(lhs[lb+1 : len(lhs)-1])
				if err != nil {
					return nil, err
				}
				act.Var = strings.TrimSpace(lhs[:lb])
				act.Idx = ie
			}
			sa.Acts = append(sa.Acts, act)
		}
	}
	return sa, nil
}
