package main

// Resilience against renamed local variables.
//
// Contracts mention local variables by name (loop invariants, site clauses). When the lock of a property is written, the
// names of the local variables of every function under contract are recorded together with a fingerprint of the SSA values
// that define them (what kind of instruction, which callee, which type, the how-manieth of its kind in the function). When
// a later check finds that a recorded name has disappeared from a function and exactly one NEW name has the same
// definition fingerprints, the new variable is also bound under the old name: the contract then reads as before. Nothing
// is guessed when the match is not unique; the clause that mentions the missing name then fails as before.

import (
	"fmt"
	"os"
	"path/filepath"
	"sort"
	"strings"

	"golang.org/x/tools/go/ssa"
	"golang.org/x/tools/go/ssa/ssautil"
)

// localNames: debug name -> fingerprints of its defining values, for one function.
func localNames(fn *ssa.Function) map[string][]string {
	ord := map[string]int{}
	fp := func(v ssa.Value) string {
		detail := ""
		switch x := v.(type) {
		case *ssa.Call:
			if f := x.Call.StaticCallee(); f != nil {
				detail = f.Name()
			} else if x.Call.IsInvoke() {
				detail = x.Call.Method.Name()
			} else if b, ok := x.Call.Value.(*ssa.Builtin); ok {
				detail = b.Name()
			}
		case *ssa.Extract:
			detail = fmt.Sprint(x.Index)
			if c, ok := x.Tuple.(*ssa.Call); ok {
				if f := c.Call.StaticCallee(); f != nil {
					detail += ":" + f.Name()
				} else if c.Call.IsInvoke() {
					detail += ":" + c.Call.Method.Name()
				}
			}
		case *ssa.UnOp:
			detail = x.Op.String()
		case *ssa.BinOp:
			detail = x.Op.String()
		case *ssa.Const:
			return ""
		case *ssa.Parameter, *ssa.FreeVar:
			return ""
		}
		k := fmt.Sprintf("%T|%s|%s", v, detail, typeName(v.Type()))
		return k
	}
	// first pass: ordinals per kind, in block order
	ordOf := map[ssa.Value]int{}
	for _, b := range fn.Blocks {
		for _, ins := range b.Instrs {
			if v, ok := ins.(ssa.Value); ok {
				k := fp(v)
				if k == "" {
					continue
				}
				ordOf[v] = ord[k]
				ord[k]++
			}
		}
	}
	full := func(v ssa.Value) string {
		k := fp(v)
		if k == "" {
			return ""
		}
		return fmt.Sprintf("%s|%d", k, ordOf[v])
	}
	out := map[string]map[string]bool{}
	add := func(name string, v ssa.Value) {
		if name == "" || name == "_" {
			return
		}
		f := full(v)
		if f == "" {
			return
		}
		if out[name] == nil {
			out[name] = map[string]bool{}
		}
		out[name][f] = true
	}
	for _, b := range fn.Blocks {
		for _, ins := range b.Instrs {
			switch x := ins.(type) {
			case *ssa.DebugRef:
				if x.IsAddr || x.Object() == nil {
					continue
				}
				add(x.Object().Name(), x.X)
			case *ssa.Alloc:
				add(x.Comment, x)
			case *ssa.Phi:
				add(x.Comment, x)
			}
		}
	}
	res := map[string][]string{}
	for n, s := range out {
		var l []string
		for f := range s {
			l = append(l, f)
		}
		sort.Strings(l)
		res[n] = l
	}
	return res
}

func localsPath(prop string) string { return filepath.Join(verifDir, "locks", prop+".locals") }

// writeLocals records the local names of the functions under contract (called when the lock is written).
func writeLocals(prop string, fns []*ssa.Function) {
	var lines []string
	seen := map[string]bool{}
	for _, fn := range fns {
		if fn == nil || seen[fn.String()] {
			continue
		}
		seen[fn.String()] = true
		names := localNames(fn)
		var ns []string
		for n := range names {
			ns = append(ns, n)
		}
		sort.Strings(ns)
		for _, n := range ns {
			lines = append(lines, fmt.Sprintf("%s\t%s\t%s", fn.String(), n, strings.Join(names[n], ";")))
		}
	}
	sort.Strings(lines)
	_ = os.WriteFile(localsPath(prop), []byte(strings.Join(lines, "\n")+"\n"), 0o644)
}

// loadLocals: function -> name -> fingerprints, as recorded with the lock.
func loadLocals(prop string) map[string]map[string]string {
	out := map[string]map[string]string{}
	b, err := os.ReadFile(localsPath(prop))
	if err != nil {
		return out
	}
	for _, l := range strings.Split(string(b), "\n") {
		f := strings.Split(l, "\t")
		if len(f) != 3 {
			continue
		}
		if out[f[0]] == nil {
			out[f[0]] = map[string]string{}
		}
		out[f[0]][f[1]] = f[2]
	}
	return out
}

// renamedLocals: current name -> recorded (old) name, for variables that were renamed since the lock was written.
func renamedLocals(fn *ssa.Function, recorded map[string]string) map[string]string {
	if len(recorded) == 0 {
		return nil
	}
	cur := localNames(fn)
	curFP := map[string]string{}
	for n, l := range cur {
		curFP[n] = strings.Join(l, ";")
	}
	alias := map[string]string{}
	for old, fp := range recorded {
		if _, still := curFP[old]; still || fp == "" {
			continue
		}
		var cands []string
		for n, f := range curFP {
			if _, known := recorded[n]; known {
				continue // that name existed before: not a renaming of `old`
			}
			if f == fp {
				cands = append(cands, n)
			}
		}
		if len(cands) == 1 {
			alias[cands[0]] = old
		}
	}
	return alias
}

func funcsPath(prop string) string { return filepath.Join(verifDir, "locks", prop+".funcs") }

// writeFuncs records the named functions of the packages that hold the functions under contract (called when the lock is
// written): a function that is not in this list at a later check was added since (see Gen.extractedFn).
func (g *Gen) writeFuncs(prop string, fns []*ssa.Function) {
	pkgs := map[*ssa.Package]bool{}
	for _, fn := range fns {
		if fn != nil && fn.Pkg != nil {
			pkgs[fn.Pkg] = true
		}
	}
	var lines []string
	for p := range pkgs {
		lines = append(lines, "pkg\t"+p.Pkg.Path())
	}
	for fn := range ssautil.AllFunctions(g.prog) {
		if fn.Pkg == nil || !pkgs[fn.Pkg] || fn.Parent() != nil || fn.Synthetic != "" {
			continue
		}
		lines = append(lines, "func\t"+fn.String())
	}
	sort.Strings(lines)
	_ = os.WriteFile(funcsPath(prop), []byte(strings.Join(lines, "\n")+"\n"), 0o644)
}

func (g *Gen) loadFuncs(prop string) {
	g.recordedFuncs, g.recordedPkgs = map[string]bool{}, map[string]bool{}
	b, err := os.ReadFile(funcsPath(prop))
	if err != nil {
		return
	}
	for _, l := range strings.Split(string(b), "\n") {
		f := strings.SplitN(l, "\t", 2)
		if len(f) != 2 {
			continue
		}
		if f[0] == "pkg" {
			g.recordedPkgs[f[1]] = true
		} else {
			g.recordedFuncs[f[1]] = true
		}
	}
}
