package main

import (
	"bytes"
	"context"
	"fmt"
	"os"
	"os/exec"
	"path/filepath"
	"strings"
	"sync"
	"time"
)

type SolveResult struct {
	Status string   `json:"status"` // unsat, sat, unknown, timeout, error
	Solver string   `json:"solver"`
	TimeS  float64  `json:"time_s"`
	Model  string   `json:"model,omitempty"`
	Raw    string   `json:"raw,omitempty"`
	File   string   `json:"smt_file,omitempty"`
	Tried  []string `json:"tried,omitempty"`
}

type solverSpec struct {
	name string
	args func(file string, timeoutS int, seed int) []string
}

var solvers = []solverSpec{
	{"z3-new", func(f string, t, seed int) []string {
		return []string{"z3-new", fmt.Sprintf("-T:%d", t), fmt.Sprintf("smt.random_seed=%d", seed), f}
	}},
	{"cvc5", func(f string, t, seed int) []string {
		return []string{"cvc5", "--incremental", fmt.Sprintf("--tlimit=%d", t*1000), fmt.Sprintf("--seed=%d", seed), f}
	}},
	{"z3", func(f string, t, seed int) []string {
		return []string{"z3", fmt.Sprintf("-T:%d", t), fmt.Sprintf("smt.random_seed=%d", seed), f}
	}},
}

func runSolver(s solverSpec, file string, timeoutS, seed int) (string, string, float64) {
	return runSolverCtx(context.Background(), s, file, timeoutS, seed)
}

func runSolverCtx(parent context.Context, s solverSpec, file string, timeoutS, seed int) (string, string, float64) {
	args := s.args(file, timeoutS, seed)
	ctx, cancel := context.WithTimeout(parent, time.Duration(timeoutS+5)*time.Second)
	defer cancel()
	cmd := exec.CommandContext(ctx, args[0], args[1:]...)
	var out bytes.Buffer
	cmd.Stdout = &out
	cmd.Stderr = &out
	t0 := time.Now()
	_ = cmd.Run()
	el := time.Since(t0).Seconds()
	text := out.String()
	first := strings.TrimSpace(strings.SplitN(text, "\n", 2)[0])
	switch first {
	case "unsat", "sat", "unknown":
		return first, text, el
	case "timeout":
		return "timeout", text, el
	}
	if ctx.Err() != nil || strings.Contains(text, "timeout") || strings.Contains(text, "interrupted") || strings.TrimSpace(text) == "" {
		return "timeout", text, el
	}
	return "error", text, el
}

// solve races the portfolio on one query. For validity obligations: unsat = discharged.
func solve(query, file string, timeoutS, seed int, wantModel bool, confirm bool) *SolveResult {
	_ = os.MkdirAll(filepath.Dir(file), 0o755)
	_ = os.WriteFile(file, []byte(query), 0o644)
	res := &SolveResult{File: file}
	t0 := time.Now()
	type ans struct {
		s       solverSpec
		st, raw string
	}
	ctx, cancel := context.WithCancel(context.Background())
	defer cancel()
	ch := make(chan ans, len(solvers))
	for _, s := range solvers {
		go func(s solverSpec) {
			st, raw, _ := runSolverCtx(ctx, s, file, timeoutS, seed)
			ch <- ans{s, st, raw}
		}(s)
	}
	var unsatBy []string
	for range solvers {
		a := <-ch
		res.Tried = append(res.Tried, a.s.name+":"+a.st)
		switch a.st {
		case "unsat":
			unsatBy = append(unsatBy, a.s.name)
			if !confirm || len(unsatBy) >= 2 {
				res.Status, res.Solver = "unsat", strings.Join(unsatBy, "+")
				res.TimeS = time.Since(t0).Seconds()
				return res
			}
		case "sat":
			res.Status, res.Solver = "sat", a.s.name
			cancel()
			if wantModel {
				mf := file + ".model.smt2"
				_ = os.WriteFile(mf, []byte(query+"(get-model)\n"), 0o644)
				_, mraw, _ := runSolver(a.s, mf, timeoutS, seed)
				if i := strings.Index(mraw, "\n"); i >= 0 {
					res.Model = mraw[i+1:]
				}
				_ = os.Remove(mf)
			}
			res.TimeS = time.Since(t0).Seconds()
			return res
		case "error":
			res.Raw += a.s.name + ": " + firstLines(a.raw, 5) + "\n"
		}
	}
	if len(unsatBy) > 0 {
		res.Status, res.Solver = "unsat", strings.Join(unsatBy, "+")
	} else {
		res.Status = "unknown"
		allErr := true
		for _, t := range res.Tried {
			if !strings.HasSuffix(t, ":error") {
				allErr = false
			}
		}
		if allErr {
			res.Status = "error"
		}
	}
	res.TimeS = time.Since(t0).Seconds()
	return res
}

func firstLines(s string, n int) string {
	ls := strings.Split(s, "\n")
	if len(ls) > n {
		ls = ls[:n]
	}
	return strings.Join(ls, "\n")
}

// dischargeAll solves obligations in parallel.
func dischargeAll(obls []*Obligation, dir string, timeoutS, seed, workers int, confirmTop bool) {
	var wg sync.WaitGroup
	ch := make(chan int)
	for w := 0; w < workers; w++ {
		wg.Add(1)
		go func() {
			defer wg.Done()
			for i := range ch {
				o := obls[i]
				if o.PC == "true" && (o.Goal == "true" || o.Goal == "false") && !o.WantSat {
					// structural obligation decided by the generator itself (closed-world scans, literal tables, goroutine frames)
					st := "unsat"
					if o.Goal == "false" {
						st = "sat"
					}
					o.Result = &SolveResult{Status: st, Solver: "govc-structural", Tried: []string{"govc-structural:" + st}}
					continue
				}
				q := renderQuery(o, seed)
				f := filepath.Join(dir, fmt.Sprintf("%04d_%s.smt2", i, fileSafe(o.Func+"#"+o.Name)))
				confirm := confirmTop && o.Kind == "ensures"
				if o.WantSat {
					// vacuity cover: only a proof of unsatisfiability matters; sat or unknown both mean "not shown vacuous"
					o.Result = solveCover(q, f, seed)
					continue
				}
				if o.ExpectedToFail {
					// listed as a known finding: one short attempt is enough to see that it still does not hold
					o.Result = solve(q, f, 5, seed, !o.WantSat, false)
					continue
				}
				o.Result = solve(q, f, timeoutS, seed, !o.WantSat, confirm)
				if o.Result.Status == "unknown" || o.Result.Status == "timeout" {
					// one retry with a longer budget
					o.Result = solve(q, f, timeoutS*3, seed+1, !o.WantSat, false)
				}
			}
		}()
	}
	for i := range obls {
		ch <- i
	}
	close(ch)
	wg.Wait()
}

func fileSafe(s string) string {
	var b strings.Builder
	for _, c := range s {
		if c >= 'a' && c <= 'z' || c >= 'A' && c <= 'Z' || c >= '0' && c <= '9' || c == '_' || c == '-' || c == '.' {
			b.WriteRune(c)
		} else {
			b.WriteByte('_')
		}
	}
	r := b.String()
	if len(r) > 120 {
		r = r[:120]
	}
	return r
}

func solveCover(query, file string, seed int) *SolveResult {
	_ = os.MkdirAll(filepath.Dir(file), 0o755)
	_ = os.WriteFile(file, []byte(query), 0o644)
	t0 := time.Now()
	st, _, _ := runSolver(solvers[0], file, 3, seed)
	return &SolveResult{Status: st, Solver: solvers[0].name, TimeS: time.Since(t0).Seconds(), File: file, Tried: []string{solvers[0].name + ":" + st}}
}
