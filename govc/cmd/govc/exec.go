package main

import (
	"fmt"
	"go/token"
	"go/types"
	"strings"

	"golang.org/x/tools/go/ssa"
)

func (fr *Frame) set(v ssa.Value, sortT types.Type, term string) {
	fr.vals[v] = []string{fr.vc.define(fr.prefix+v.Name(), fr.vc.d.sortOf(sortT), term)}
}

// locOf resolves an address-valued SSA value to a location.
func (fr *Frame) locOf(addr ssa.Value) *Loc {
	if l, ok := fr.locs[addr]; ok {
		return l
	}
	vc := fr.vc
	switch a := addr.(type) {
	case *ssa.FreeVar:
		if l, ok := fr.freeLocs[a]; ok {
			return l
		}
	}
	if _, ok := addr.Type().Underlying().(*types.Pointer); !ok {
		return &Loc{opaque: true, ty: addr.Type()}
	}
	return vc.locOfPtr(fr.v1(addr), addr.Type())
}

func (fr *Frame) alloc(st *State) string {
	vc := fr.vc
	cur := vc.stGet0(st, "$alloc")
	ref := vc.define("ref", "Int", cur)
	if ref == cur && !vc.closed { // keep a stable name
		ref = vc.fresh("ref", "Int")
		vc.axiom(fmt.Sprintf("(= %s %s)", ref, cur))
	}
	st.m["$alloc"] = vc.define("$alloc", "Int", fmt.Sprintf("(+ %s 1)", cur))
	return ref
}

func (fr *Frame) assume(pc string, cond string) string {
	if cond == "true" {
		return pc
	}
	return fr.vc.define(fr.prefix+"pc", "Bool", and(pc, cond))
}

// safety: either obligation (if enabled) or assumption (path continues only if no panic)
func (fr *Frame) safety(kind string, ins ssa.Instruction, pc, cond string) string {
	vc := fr.vc
	if cond == "true" {
		return pc
	}
	cf := fr
	if fr.extracted {
		cf = fr.topFrame()
	}
	if cf.top && cf.c != nil && (cf.c.Safety[kind] || cf.c.Safety["all"]) {
		cf.callOrd["safety:"+kind]++
		vc.addObl(&Obligation{Name: fmt.Sprintf("%s@%d", kind, cf.callOrd["safety:"+kind]), Kind: "safety", PC: pc, Goal: cond,
			Src: fmt.Sprintf("%s check at %s", kind, vc.g.prog.Fset.Position(ins.Pos()))})
	}
	return fr.assume(pc, cond)
}

func (fr *Frame) execInstr(ins ssa.Instruction, pc string, st *State) string {
	vc := fr.vc
	d := vc.d
	// site clauses before
	pc = fr.runSites(ins, "call", pc, st, nil)
	switch x := ins.(type) {
	case *ssa.DebugRef:
	case *ssa.Alloc:
		elem := x.Type().Underlying().(*types.Pointer).Elem()
		if fr.privAlloc[x] {
			key := fr.privKey(x)
			fr.locs[x] = &Loc{local: key, ty: elem}
			vc.stSet(st, key, d.zero(elem))
			return pc
		}
		ref := fr.alloc(st)
		fr.vals[x] = []string{ref}
		if _, ok := isStructT(elem); ok {
			vc.storeStruct(st, ref, elem, d.zero(elem))
		} else if arr, ok := elem.Underlying().(*types.Array); ok {
			h := d.sliceHeap(arr.Elem())
			vc.stSet(st, h, fmt.Sprintf("(store %s %s %s)", vc.stGet(st, h), ref, d.zero(elem)))
		} else {
			h := d.cellHeap(elem)
			vc.stSet(st, h, fmt.Sprintf("(store %s %s %s)", vc.stGet(st, h), ref, d.zero(elem)))
		}
	case *ssa.FieldAddr:
		base := fr.locOf(x.X)
		if _, isPtrVal := fr.vals[x.X]; base.structRef != "" && (isPtrVal || true) {
			// nil check on the base pointer (only for real pointer values, not nested locs)
			if _, nested := fr.locs[x.X]; !nested {
				pc = fr.safety("nil", ins, pc, fmt.Sprintf("(not (= %s 0))", base.structRef))
			}
		}
		l := vc.fieldLoc(base, x.Field)
		fr.locs[x] = l
		if l.structRef != "" {
			fr.vals[x] = []string{vc.define(fr.prefix+x.Name(), "Int", l.structRef)}
			l.structRef = fr.vals[x][0]
		}
	case *ssa.IndexAddr:
		idx := fr.v1(x.Index)
		switch u := x.X.Type().Underlying().(type) {
		case *types.Slice:
			s := fr.v1(x.X)
			pc = fr.safety("index", ins, pc, fmt.Sprintf("(and (<= 0 %s) (< %s %s))", idx, idx, slLen(s)))
			fr.locs[x] = &Loc{heap: d.sliceHeap(u.Elem()), idx: slArr(s), ty: u.Elem(),
				path: []pathElem{{field: -1, index: slIdx(s, idx), elemT: u.Elem()}}}
		case *types.Pointer:
			arr := u.Elem().Underlying().(*types.Array)
			pc = fr.safety("index", ins, pc, fmt.Sprintf("(and (<= 0 %s) (< %s %d))", idx, idx, arr.Len()))
			base := fr.locOf(x.X)
			if base.opaque {
				fr.locs[x] = &Loc{opaque: true, ty: arr.Elem()}
			} else {
				np := append(append([]pathElem{}, base.path...), pathElem{field: -1, index: idx, elemT: arr.Elem()})
				fr.locs[x] = &Loc{heap: base.heap, idx: base.idx, local: base.local, path: np, ty: arr.Elem()}
			}
		default:
			fr.locs[x] = &Loc{opaque: true, ty: x.Type().Underlying().(*types.Pointer).Elem()}
		}
	case *ssa.Field:
		s := fr.v1(x.X)
		d.sortOf(x.X.Type())
		fr.set(x, x.Type(), fmt.Sprintf("(%s %s)", d.fieldSel(x.X.Type(), x.Field), s))
	case *ssa.Index:
		switch x.X.Type().Underlying().(type) {
		case *types.Array:
			fr.set(x, x.Type(), fmt.Sprintf("(select %s %s)", fr.v1(x.X), fr.v1(x.Index)))
		default:
			vc.note("string/typeparam index abstracted")
			fr.vals[x] = []string{vc.fresh(fr.prefix+x.Name(), d.sortOf(x.Type()))}
			pc = fr.assume(pc, vc.typeAssume(fr.vals[x][0], x.Type(), st))
		}
	case *ssa.UnOp:
		switch x.Op {
		case token.MUL: // load
			l := fr.locOf(x.X)
			if l.structRef != "" {
				if _, nested := fr.locs[x.X]; !nested {
					pc = fr.safety("nil", ins, pc, fmt.Sprintf("(not (= %s 0))", l.structRef))
				}
			} else if l.heap != "" && len(l.path) == 0 && l.local == "" {
				if _, nested := fr.locs[x.X]; !nested {
					pc = fr.safety("nil", ins, pc, fmt.Sprintf("(not (= %s 0))", l.idx))
				}
			}
			loaded := vc.loadLoc(st, l)
			fr.set(x, x.Type(), loaded)
			pc = fr.assume(pc, vc.typeAssume(fr.vals[x][0], x.Type(), st))
			if l.heap != "" && len(l.path) == 0 && l.local == "" && l.idx != "" && strings.HasPrefix(loaded, "(select "+l.heap+"@e0 ") {
				// the entry heap is closed: a cell of an object that existed at entry, read before anything was
				// written to that heap component, holds a reference to an object that existed at entry
				if ta := vc.typeAssume(fr.vals[x][0], x.Type(), st); ta != "true" && strings.Contains(ta, "rootref") {
					entry := strings.ReplaceAll(ta, " "+vc.stGet0(st, "$alloc")+")", " $alloc@0)")
					if entry != ta || vc.stGet0(st, "$alloc") == "$alloc@0" {
						pc = fr.assume(pc, fmt.Sprintf("(=> (< (rootref %s) $alloc@0) %s)", l.idx, entry))
					}
				}
			}
			if a, ok := x.X.(*ssa.Alloc); ok && fr.closureCell != nil {
				if mc, ok := fr.closureCell[a]; ok {
					fr.closures[x] = mc
				}
			}
			// propagate closure identity through private locals
		case token.NOT:
			fr.set(x, x.Type(), not(fr.v1(x.X)))
		case token.SUB:
			if d.sortOf(x.Type()) == "Real" {
				fr.set(x, x.Type(), fmt.Sprintf("(- %s)", fr.v1(x.X)))
			} else if isUnsigned(x.Type()) {
				fr.set(x, x.Type(), fmt.Sprintf("(mod (- %s) %s)", fr.v1(x.X), uintModulus(x.Type())))
			} else {
				fr.set(x, x.Type(), fmt.Sprintf("(- %s)", fr.v1(x.X)))
			}
		case token.ARROW:
			if !vc.g.recvNoHavoc(fr) {
				fr.havocInterference(st)
				vc.note("channel receive: havoc of all heap state (other goroutines may have run)")
			}
			if x.CommaOk {
				tup := x.Type().(*types.Tuple)
				fr.vals[x] = []string{vc.fresh(fr.prefix+x.Name(), d.sortOf(tup.At(0).Type())), vc.fresh(fr.prefix+x.Name()+".ok", "Bool")}
			} else {
				fr.vals[x] = []string{vc.fresh(fr.prefix+x.Name(), d.sortOf(x.Type()))}
				pc = fr.assume(pc, vc.typeAssume(fr.vals[x][0], x.Type(), st))
			}
			pc = fr.runSites(ins, "recv", pc, st, nil)
		case token.XOR:
			vc.note("bitwise complement abstracted")
			fr.vals[x] = []string{vc.fresh(fr.prefix+x.Name(), d.sortOf(x.Type()))}
		}
	case *ssa.BinOp:
		fr.binop(x, &pc, st)
	case *ssa.Store:
		l := fr.locOf(x.Addr)
		if l.structRef != "" {
			if _, nested := fr.locs[x.Addr]; !nested {
				pc = fr.safety("nil", ins, pc, fmt.Sprintf("(not (= %s 0))", l.structRef))
			}
		} else if l.heap != "" && len(l.path) == 0 && l.local == "" {
			if _, nested := fr.locs[x.Addr]; !nested {
				pc = fr.safety("nil", ins, pc, fmt.Sprintf("(not (= %s 0))", l.idx))
			}
		}
		pc = fr.runSites(ins, "store", pc, st, nil)
		vc.storeLoc(st, l, fr.v1(x.Val))
		// a function literal assigned once to a local variable keeps its identity when read back
		if a, ok := x.Addr.(*ssa.Alloc); ok {
			if mc, ok := fr.closures[x.Val]; ok {
				nStores := 0
				if refs := a.Referrers(); refs != nil {
					for _, r := range *refs {
						if s2, ok := r.(*ssa.Store); ok && s2.Addr == ssa.Value(a) {
							nStores++
						}
					}
				}
				if nStores == 1 {
					if fr.closureCell == nil {
						fr.closureCell = map[*ssa.Alloc]*ssa.MakeClosure{}
					}
					fr.closureCell[a] = mc
				}
			}
		}
		// remember closures stored into private locals (defer func literal via variable etc.)
	case *ssa.Phi:
	case *ssa.Extract:
		tv := fr.val(x.Tuple)
		if x.Index < len(tv) {
			fr.vals[x] = []string{tv[x.Index]}
		} else {
			fr.vals[x] = []string{vc.fresh(fr.prefix+x.Name(), d.sortOf(x.Type()))}
		}
	case *ssa.ChangeType:
		if ss, ok := x.X.Type().Underlying().(*types.Struct); ok && d.sortOf(x.X.Type()) != d.sortOf(x.Type()) {
			// conversion between two named struct types with identical underlying types: the value is rebuilt field by
			// field in the datatype of the target type
			if ts, ok := x.Type().Underlying().(*types.Struct); ok && ts.NumFields() == ss.NumFields() {
				src := fr.v1(x.X)
				var fs []string
				for i := 0; i < ss.NumFields(); i++ {
					fs = append(fs, fmt.Sprintf("(%s %s)", d.fieldSel(x.X.Type(), i), src))
				}
				fr.vals[x] = []string{vc.define(fr.prefix+x.Name(), d.sortOf(x.Type()), fmt.Sprintf("(%s %s)", d.structCtor(x.Type()), strings.Join(fs, " ")))}
				break
			}
		}
		fr.vals[x] = []string{fr.v1(x.X)}
		if mc, ok := fr.closures[x.X]; ok {
			fr.closures[x] = mc
		}
	case *ssa.ChangeInterface:
		fr.vals[x] = []string{fr.v1(x.X)}
	case *ssa.Convert:
		fr.convert(x, &pc, st)
	case *ssa.MakeInterface:
		t := x.X.Type()
		tag := d.typeTag(t)
		var val string
		if isRefLike(t) {
			val = fr.v1(x.X)
		} else {
			box, _ := d.boxFuns(t)
			val = fmt.Sprintf("(%s %s)", box, fr.v1(x.X))
		}
		fr.set(x, x.Type(), fmt.Sprintf("(mk-iface %d %s)", tag, val))
	case *ssa.TypeAssert:
		fr.typeAssert(x, &pc, st)
	case *ssa.MakeSlice:
		ref := fr.alloc(st)
		elem := x.Type().Underlying().(*types.Slice).Elem()
		h := d.sliceHeap(elem)
		vc.stSet(st, h, fmt.Sprintf("(store %s %s %s)", vc.stGet(st, h), ref, d.constArray("Int", d.sortOf(elem), d.zero(elem))))
		ln, cp := fr.v1(x.Len), fr.v1(x.Cap)
		pc = fr.safety("makeslice", ins, pc, fmt.Sprintf("(and (<= 0 %s) (<= %s %s))", ln, ln, cp))
		fr.set(x, x.Type(), fmt.Sprintf("(mk-slice %s 0 %s %s)", ref, ln, cp))
	case *ssa.MakeMap:
		ref := fr.alloc(st)
		mt := x.Type().Underlying().(*types.Map)
		dom, _, card := d.mapHeaps(mt)
		vc.stSet(st, dom, fmt.Sprintf("(store %s %s ((as const (Array %s Bool)) false))", vc.stGet(st, dom), ref, d.sortOf(mt.Key())))
		vc.stSet(st, card, fmt.Sprintf("(store %s %s 0)", vc.stGet(st, card), ref))
		fr.vals[x] = []string{ref}
	case *ssa.MakeChan:
		ref := fr.alloc(st)
		d.chanCapDecl()
		vc.stSet(st, "$chancap", fmt.Sprintf("(store %s %s %s)", vc.stGet(st, "$chancap"), ref, fr.v1(x.Size)))
		fr.vals[x] = []string{ref}
	case *ssa.MakeClosure:
		ref := fr.alloc(st)
		fr.vals[x] = []string{ref}
		fr.closures[x] = x
	case *ssa.Slice:
		fr.sliceOp(x, &pc, st)
	case *ssa.Lookup:
		fr.lookup(x, &pc, st)
	case *ssa.MapUpdate:
		mt, ok := x.Map.Type().Underlying().(*types.Map)
		if !ok {
			vc.havocAll(st)
			break
		}
		m, k, v := fr.v1(x.Map), fr.v1(x.Key), fr.v1(x.Value)
		pc = fr.safety("nilmap", ins, pc, fmt.Sprintf("(not (= %s 0))", m))
		pc = fr.runSites(ins, "mapupdate", pc, st, nil)
		fr.mapStore(st, mt, m, k, v)
	case *ssa.Range:
		if mt, ok := x.X.Type().Underlying().(*types.Map); ok {
			key := "$it." + fr.prefix + x.Name()
			d.heapSort[key] = "(Array " + d.sortOf(mt.Key()) + " Bool)"
			fr.iterVis[x] = key
			fr.iterMap[x] = x.X
			vc.stSet(st, key, fmt.Sprintf("((as const (Array %s Bool)) false)", d.sortOf(mt.Key())))
			fr.vals[x] = []string{"0"}
		} else {
			vc.note("range over string abstracted")
			fr.vals[x] = []string{"0"}
		}
	case *ssa.Next:
		fr.next(x, &pc, st)
	case *ssa.Call:
		res := fr.doCall(x, &pc, st)
		fr.bindResults(x, x.Type(), res, &pc, st)
	case *ssa.Go:
		pc = fr.runSites(ins, "go", pc, st, nil)
		fr.goStmt(x, &pc, st)
	case *ssa.Defer:
		dr := &deferRec{call: x, cond: pc}
		for _, a := range x.Call.Args {
			dr.args = append(dr.args, fr.v1(a))
		}
		if x.Call.IsInvoke() {
			dr.recv = fr.val(x.Call.Value)
		}
		fr.defers = append(fr.defers, dr)
	case *ssa.RunDefers:
		for i := len(fr.defers) - 1; i >= 0; i-- {
			dr := fr.defers[i]
			// execute under condition that the defer statement was reached
			before := st.clone()
			pc2 := pc
			fr.doCallCommon(dr.call, &dr.call.Call, &pc2, st)
			if dr.cond != "true" && !fr.dominatesAllReturns(dr.call.Block()) {
				merged := vc.mergeStates([]string{dr.cond, "true"}, []*State{st, before})
				*st = *merged
			}
			pc = pc2
		}
	case *ssa.Return:
		pc = fr.runSites(ins, "return", pc, st, nil)
		var vals [][]string
		for _, r := range x.Results {
			vals = append(vals, fr.val(r))
		}
		fr.rets = append(fr.rets, retPoint{pc: pc, st: st.clone(), vals: vals, pos: vc.g.prog.Fset.Position(x.Pos()).String()})
	case *ssa.Panic:
		if fr.top && fr.c != nil && fr.c.Safety["panic"] {
			fr.callOrd["panic"]++
			vc.addObl(&Obligation{Name: fmt.Sprintf("panic@%d", fr.callOrd["panic"]), Kind: "safety", PC: pc, Goal: "false", Src: "explicit panic reachable"})
		}
	case *ssa.If, *ssa.Jump:
	case *ssa.Send:
		pc = fr.runSites(ins, "send", pc, st, nil)
	case *ssa.Select:
		fr.havocInterference(st)
		vc.note("select: nondeterministic branch, havoc of all heap state")
		tup := x.Type().(*types.Tuple)
		var ts []string
		for i := 0; i < tup.Len(); i++ {
			ts = append(ts, vc.fresh(fr.prefix+x.Name(), d.sortOf(tup.At(i).Type())))
		}
		fr.vals[x] = ts
		n := len(x.States)
		if x.Blocking {
			pc = fr.assume(pc, fmt.Sprintf("(and (<= 0 %s) (< %s %d))", ts[0], ts[0], n))
		} else {
			pc = fr.assume(pc, fmt.Sprintf("(and (<= (- 1) %s) (< %s %d))", ts[0], ts[0], n))
		}
		for i := 2; i < len(ts); i++ {
			pc = fr.assume(pc, vc.typeAssume(ts[i], tup.At(i).Type(), st))
		}
		pc = fr.runSites(ins, "select", pc, st, nil)
	case *ssa.SliceToArrayPointer, *ssa.MultiConvert:
		vc.note("unsupported conversion abstracted")
		fr.vals[x.(ssa.Value)] = []string{vc.fresh(fr.prefix+x.(ssa.Value).Name(), d.sortOf(x.(ssa.Value).Type()))}
	default:
		vc.note("instruction %T abstracted", ins)
		if v, ok := ins.(ssa.Value); ok {
			fr.vals[v] = []string{vc.fresh(fr.prefix+v.Name(), d.sortOf(v.Type()))}
		}
	}
	pc = fr.runSites(ins, "aftercall", pc, st, nil)
	return pc
}

func (fr *Frame) dominatesAllReturns(b *ssa.BasicBlock) bool { return b.Index == 0 }

func (fr *Frame) bindResults(v ssa.Value, t types.Type, res []string, pc *string, st *State) {
	vc := fr.vc
	if tup, ok := t.(*types.Tuple); ok {
		if len(res) != tup.Len() {
			res = nil
			for i := 0; i < tup.Len(); i++ {
				n := vc.fresh(fr.prefix+v.Name(), vc.d.sortOf(tup.At(i).Type()))
				*pc = fr.assume(*pc, vc.typeAssume(n, tup.At(i).Type(), st))
				res = append(res, n)
			}
		}
		fr.vals[v] = res
		return
	}
	if len(res) != 1 {
		n := vc.fresh(fr.prefix+v.Name(), vc.d.sortOf(t))
		*pc = fr.assume(*pc, vc.typeAssume(n, t, st))
		res = []string{n}
	}
	fr.vals[v] = []string{vc.define(fr.prefix+v.Name(), vc.d.sortOf(t), res[0])}
}

func (fr *Frame) binop(x *ssa.BinOp, pc *string, st *State) {
	vc := fr.vc
	d := vc.d
	a, b := fr.v1(x.X), fr.v1(x.Y)
	xt := x.X.Type()
	srt := d.sortOf(xt)
	isNilConst := func(v ssa.Value) bool {
		c, ok := v.(*ssa.Const)
		return ok && c.Value == nil
	}
	eq := func() string {
		switch xt.Underlying().(type) {
		case *types.Slice:
			if isNilConst(x.Y) {
				return fmt.Sprintf("(= (s.arr %s) 0)", a)
			}
			if isNilConst(x.X) {
				return fmt.Sprintf("(= (s.arr %s) 0)", b)
			}
		case *types.Interface:
			if isNilConst(x.Y) {
				return fmt.Sprintf("(= (i.tag %s) 0)", a)
			}
			if isNilConst(x.X) {
				return fmt.Sprintf("(= (i.tag %s) 0)", b)
			}
		}
		return fmt.Sprintf("(= %s %s)", a, b)
	}
	switch x.Op {
	case token.EQL:
		fr.set(x, x.Type(), eq())
		return
	case token.NEQ:
		fr.set(x, x.Type(), not(eq()))
		return
	}
	if srt == "String" || srt == "Str" {
		if srt == "Str" {
			d.strUFDecls()
			switch x.Op {
			case token.ADD:
				fr.set(x, x.Type(), fmt.Sprintf("(str.cat %s %s)", a, b))
			case token.LSS:
				fr.set(x, x.Type(), fmt.Sprintf("(str.lt %s %s)", a, b))
			case token.GTR:
				fr.set(x, x.Type(), fmt.Sprintf("(str.lt %s %s)", b, a))
			case token.LEQ:
				fr.set(x, x.Type(), fmt.Sprintf("(or (= %s %s) (str.lt %s %s))", a, b, a, b))
			case token.GEQ:
				fr.set(x, x.Type(), fmt.Sprintf("(or (= %s %s) (str.lt %s %s))", a, b, b, a))
			}
			return
		}
		switch x.Op {
		case token.ADD:
			fr.set(x, x.Type(), fmt.Sprintf("(str.++ %s %s)", a, b))
		case token.LSS:
			fr.set(x, x.Type(), fmt.Sprintf("(str.< %s %s)", a, b))
		case token.LEQ:
			fr.set(x, x.Type(), fmt.Sprintf("(str.<= %s %s)", a, b))
		case token.GTR:
			fr.set(x, x.Type(), fmt.Sprintf("(str.< %s %s)", b, a))
		case token.GEQ:
			fr.set(x, x.Type(), fmt.Sprintf("(str.<= %s %s)", b, a))
		}
		return
	}
	if srt == "Bool" {
		// only && || via control flow; &, | on bools do not exist. keep for safety
		fr.vals[x] = []string{vc.fresh(fr.prefix+x.Name(), "Bool")}
		return
	}
	cmp := map[token.Token]string{token.LSS: "<", token.LEQ: "<=", token.GTR: ">", token.GEQ: ">="}
	if op, ok := cmp[x.Op]; ok {
		fr.set(x, x.Type(), fmt.Sprintf("(%s %s %s)", op, a, b))
		return
	}
	if srt == "Real" {
		ops := map[token.Token]string{token.ADD: "+", token.SUB: "-", token.MUL: "*", token.QUO: "/"}
		if op, ok := ops[x.Op]; ok {
			vc.note("float64 arithmetic modelled over the reals")
			fr.set(x, x.Type(), fmt.Sprintf("(%s %s %s)", op, a, b))
			return
		}
	}
	if srt == "Int" {
		wrap := func(t string) string {
			if isUnsigned(x.Type()) {
				return fmt.Sprintf("(mod %s %s)", t, uintModulus(x.Type()))
			}
			return t
		}
		overflow := func(t string) {
			if fr.top && fr.c != nil && fr.c.Safety["overflow"] {
				if lo, hi, ok := intRange(x.Type()); ok {
					fr.callOrd["overflow"]++
					vc.addObl(&Obligation{Name: fmt.Sprintf("overflow@%d", fr.callOrd["overflow"]), Kind: "safety", PC: *pc,
						Goal: fmt.Sprintf("(and (<= %s %s) (<= %s %s))", lo, t, t, hi), Src: fmt.Sprintf("no overflow in %s at %s", x.Op, vc.g.prog.Fset.Position(x.Pos()))})
				}
			}
		}
		switch x.Op {
		case token.ADD:
			t := fmt.Sprintf("(+ %s %s)", a, b)
			overflow(t)
			fr.set(x, x.Type(), wrap(t))
			return
		case token.SUB:
			t := fmt.Sprintf("(- %s %s)", a, b)
			overflow(t)
			fr.set(x, x.Type(), wrap(t))
			return
		case token.MUL:
			t := fmt.Sprintf("(* %s %s)", a, b)
			overflow(t)
			fr.set(x, x.Type(), wrap(t))
			return
		case token.QUO:
			*pc = fr.safety("div", x, *pc, fmt.Sprintf("(not (= %s 0))", b))
			// Go truncates toward zero
			if isUnsigned(x.Type()) {
				fr.set(x, x.Type(), fmt.Sprintf("(div %s %s)", a, b))
			} else {
				fr.set(x, x.Type(), fmt.Sprintf("(ite (>= %s 0) (div %s %s) (- (div (- %s) %s)))", a, a, b, a, b))
			}
			return
		case token.REM:
			*pc = fr.safety("div", x, *pc, fmt.Sprintf("(not (= %s 0))", b))
			if isUnsigned(x.Type()) {
				fr.set(x, x.Type(), fmt.Sprintf("(mod %s %s)", a, b))
			} else {
				fr.set(x, x.Type(), fmt.Sprintf("(ite (>= %s 0) (mod %s (abs %s)) (- (mod (- %s) (abs %s))))", a, a, b, a, b))
			}
			return
		}
	}
	vc.note("binary operator %s on %s abstracted", x.Op, typeName(xt))
	n := vc.fresh(fr.prefix+x.Name(), d.sortOf(x.Type()))
	fr.vals[x] = []string{n}
	*pc = fr.assume(*pc, vc.typeAssume(n, x.Type(), st))
}

func (fr *Frame) convert(x *ssa.Convert, pc *string, st *State) {
	vc := fr.vc
	d := vc.d
	from, to := x.X.Type(), x.Type()
	fs, ts := d.sortOf(from), d.sortOf(to)
	a := fr.v1(x.X)
	switch {
	case fs == "Int" && ts == "Int":
		flo, fhi, fok := intRange(from)
		tlo, thi, tok := intRange(to)
		_ = flo
		_ = fhi
		if !fok || !tok {
			fr.vals[x] = []string{a}
			return
		}
		if isUnsigned(to) {
			fr.set(x, to, fmt.Sprintf("(mod %s %s)", a, uintModulus(to)))
			return
		}
		// signed target: identity when in range, otherwise unconstrained within range
		n := vc.fresh(fr.prefix+x.Name(), "Int")
		vc.axiom(fmt.Sprintf("(and (<= %s %s) (<= %s %s) (=> (and (<= %s %s) (<= %s %s)) (= %s %s)))", tlo, n, n, thi, tlo, a, a, thi, n, a))
		fr.vals[x] = []string{n}
	case fs == "Int" && ts == "Real":
		fr.set(x, to, fmt.Sprintf("(to_real %s)", a))
	case fs == "Real" && ts == "Int":
		fr.set(x, to, fmt.Sprintf("(ite (>= %s 0.0) (to_int %s) (- (to_int (- %s))))", a, a, a))
	case fs == "Real" && ts == "Real":
		fr.vals[x] = []string{a}
	case fs == ts && (fs == "String" || fs == "Str"):
		fr.vals[x] = []string{a}
	case fs == "Slice" && (ts == "String" || ts == "Str") && isByteSlice(from):
		// string(b): an uninterpreted function of the bytes
		fr.set(x, to, vc.bytesToStr(st, a))
	case (fs == "String" || fs == "Str") && ts == "Slice" && isByteSlice(to):
		// []byte(s): a fresh array whose content converts back to s
		ref := fr.alloc(st)
		h := d.sliceHeap(types.Typ[types.Uint8])
		arr := vc.fresh("bytes", "(Array Int Int)")
		// len([]byte(s)) == len(s): Go strings are byte sequences
		var ln string
		if fs == "String" {
			ln = vc.define("byteslen", "Int", fmt.Sprintf("(str.len %s)", a))
		} else {
			d.strUFDecls()
			ln = vc.define("byteslen", "Int", fmt.Sprintf("(strlen %s)", a))
		}
		vc.stSet(st, h, fmt.Sprintf("(store %s %s %s)", vc.stGet(st, h), ref, arr))
		sl := fmt.Sprintf("(mk-slice %s 0 %s %s)", ref, ln, ln)
		fr.vals[x] = []string{sl}
		*pc = fr.assume(*pc, and(fmt.Sprintf("(>= %s 0)", ln), fmt.Sprintf("(= %s %s)", vc.bytesToStr(st, sl), a)))
	default:
		vc.note("conversion %s -> %s abstracted", typeName(from), typeName(to))
		n := vc.fresh(fr.prefix+x.Name(), ts)
		fr.vals[x] = []string{n}
		*pc = fr.assume(*pc, vc.typeAssume(n, to, st))
	}
}

func (fr *Frame) typeAssert(x *ssa.TypeAssert, pc *string, st *State) {
	vc := fr.vc
	d := vc.d
	v := fr.v1(x.X)
	at := x.AssertedType
	var ok, val string
	if _, isIface := at.Underlying().(*types.Interface); isIface {
		if x.CommaOk {
			okc := vc.fresh(fr.prefix+x.Name()+".ok", "Bool")
			vc.axiom(fmt.Sprintf("(=> %s (not (= (i.tag %s) 0)))", okc, v))
			ok = okc
			val = ite(okc, v, "nil-iface")
		} else {
			*pc = fr.safety("typeassert", x, *pc, fmt.Sprintf("(not (= (i.tag %s) 0))", v))
			val = v
		}
	} else {
		tag := d.typeTag(at)
		ok = fmt.Sprintf("(= (i.tag %s) %d)", v, tag)
		if isRefLike(at) {
			val = fmt.Sprintf("(i.val %s)", v)
		} else {
			_, unbox := d.boxFuns(at)
			val = fmt.Sprintf("(%s (i.val %s))", unbox, v)
		}
		if x.CommaOk {
			val = ite(ok, val, d.zero(at))
		} else {
			*pc = fr.safety("typeassert", x, *pc, ok)
		}
	}
	if x.CommaOk {
		fr.vals[x] = []string{vc.define(fr.prefix+x.Name(), d.sortOf(at), val), vc.define(fr.prefix+x.Name()+".ok", "Bool", ok)}
	} else {
		fr.vals[x] = []string{vc.define(fr.prefix+x.Name(), d.sortOf(at), val)}
	}
}

func (fr *Frame) sliceOp(x *ssa.Slice, pc *string, st *State) {
	vc := fr.vc
	d := vc.d
	lo := "0"
	if x.Low != nil {
		lo = fr.v1(x.Low)
	}
	switch u := x.X.Type().Underlying().(type) {
	case *types.Slice:
		s := fr.v1(x.X)
		hi := fmt.Sprintf("(s.len %s)", s)
		if x.High != nil {
			hi = fr.v1(x.High)
		}
		mx := fmt.Sprintf("(s.cap %s)", s)
		if x.Max != nil {
			mx = fr.v1(x.Max)
		}
		*pc = fr.safety("index", x, *pc, fmt.Sprintf("(and (<= 0 %s) (<= %s %s) (<= %s (s.cap %s)))", lo, lo, hi, hi, s))
		off := fmt.Sprintf("(+ (s.off %s) %s)", s, lo)
		if p := slParts(s); p != nil {
			if p[1] == "0" {
				off = lo
			} else if lo == "0" {
				off = p[1]
			} else {
				off = fmt.Sprintf("(+ %s %s)", p[1], lo)
			}
			if hi == fmt.Sprintf("(s.len %s)", s) {
				hi = p[2]
			}
			if mx == fmt.Sprintf("(s.cap %s)", s) {
				mx = p[3]
			}
		}
		fr.set(x, x.Type(), fmt.Sprintf("(mk-slice %s %s (- %s %s) (- %s %s))", slArr(s), off, hi, lo, mx, lo))
		_ = u
	case *types.Pointer:
		arr := u.Elem().Underlying().(*types.Array)
		ref := fr.v1(x.X)
		hi := fmt.Sprint(arr.Len())
		if x.High != nil {
			hi = fr.v1(x.High)
		}
		fr.set(x, x.Type(), fmt.Sprintf("(mk-slice %s %s (- %s %s) (- %d %s))", ref, lo, hi, lo, arr.Len(), lo))
	case *types.Basic: // string
		s := fr.v1(x.X)
		if d.sortOf(x.X.Type()) == "String" {
			hi := fmt.Sprintf("(str.len %s)", s)
			if x.High != nil {
				hi = fr.v1(x.High)
			}
			*pc = fr.safety("index", x, *pc, fmt.Sprintf("(and (<= 0 %s) (<= %s %s) (<= %s (str.len %s)))", lo, lo, hi, hi, s))
			fr.set(x, x.Type(), fmt.Sprintf("(str.substr %s %s (- %s %s))", s, lo, hi, lo))
		} else {
			fr.vals[x] = []string{vc.fresh(fr.prefix+x.Name(), d.sortOf(x.Type()))}
		}
	default:
		fr.vals[x] = []string{vc.fresh(fr.prefix+x.Name(), d.sortOf(x.Type()))}
	}
}

func (fr *Frame) mapDomVal(st *State, mt *types.Map, m, k string) (inDom, val string) {
	vc := fr.vc
	dom, valh, _ := vc.d.mapHeaps(mt)
	inDom = fmt.Sprintf("(and (not (= %s 0)) (select (select %s %s) %s))", m, vc.stGet(st, dom), m, k)
	val = fmt.Sprintf("(select (select %s %s) %s)", vc.stGet(st, valh), m, k)
	return
}

func (fr *Frame) mapStore(st *State, mt *types.Map, m, k, v string) {
	vc := fr.vc
	dom, valh, card := vc.d.mapHeaps(mt)
	dh, vh, ch := vc.stGet(st, dom), vc.stGet(st, valh), vc.stGet(st, card)
	vc.stSet(st, card, fmt.Sprintf("(store %s %s (+ (select %s %s) (ite (select (select %s %s) %s) 0 1)))", ch, m, ch, m, dh, m, k))
	vc.stSet(st, dom, fmt.Sprintf("(store %s %s (store (select %s %s) %s true))", dh, m, dh, m, k))
	vc.stSet(st, valh, fmt.Sprintf("(store %s %s (store (select %s %s) %s %s))", vh, m, vh, m, k, v))
}

func (fr *Frame) mapDelete(st *State, mt *types.Map, m, k string) {
	vc := fr.vc
	dom, _, card := vc.d.mapHeaps(mt)
	dh, ch := vc.stGet(st, dom), vc.stGet(st, card)
	// delete on nil map is a no-op
	vc.stSet(st, card, fmt.Sprintf("(ite (= %s 0) %s (store %s %s (- (select %s %s) (ite (select (select %s %s) %s) 1 0))))", m, ch, ch, m, ch, m, dh, m, k))
	vc.stSet(st, dom, fmt.Sprintf("(ite (= %s 0) %s (store %s %s (store (select %s %s) %s false)))", m, dh, dh, m, dh, m, k))
}

func (fr *Frame) lookup(x *ssa.Lookup, pc *string, st *State) {
	vc := fr.vc
	d := vc.d
	mt, ok := x.X.Type().Underlying().(*types.Map)
	if !ok {
		// string index
		if d.sortOf(x.X.Type()) == "String" {
			s, i := fr.v1(x.X), fr.v1(x.Index)
			*pc = fr.safety("index", x, *pc, fmt.Sprintf("(and (<= 0 %s) (< %s (str.len %s)))", i, i, s))
			fr.set(x, x.Type(), fmt.Sprintf("(str.to_code (str.at %s %s))", s, i))
			vc.note("string bytes modelled as code points (ASCII assumption)")
			return
		}
		fr.vals[x] = []string{vc.fresh(fr.prefix+x.Name(), d.sortOf(x.Type()))}
		return
	}
	m, k := fr.v1(x.X), fr.v1(x.Index)
	inDom, val := fr.mapDomVal(st, mt, m, k)
	v := ite(inDom, val, d.zero(mt.Elem()))
	if x.CommaOk {
		fr.vals[x] = []string{vc.define(fr.prefix+x.Name(), d.sortOf(mt.Elem()), v), vc.define(fr.prefix+x.Name()+".ok", "Bool", inDom)}
	} else {
		fr.set(x, mt.Elem(), v)
	}
	*pc = fr.assume(*pc, vc.typeAssume(fr.vals[x][0], mt.Elem(), st))
	fr.lookupIn = &lookupInfo{key: k, val: fr.vals[x][0], ok: inDom, keyT: mt.Key(), valT: mt.Elem()}
	*pc = fr.runSites(x, "lookup", *pc, st, nil)
	fr.lookupIn = nil
}

func (fr *Frame) next(x *ssa.Next, pc *string, st *State) {
	vc := fr.vc
	d := vc.d
	tup := x.Type().(*types.Tuple)
	rng, _ := x.Iter.(*ssa.Range)
	key, isMap := fr.iterVis[x.Iter]
	if !isMap || rng == nil {
		var ts []string
		for i := 0; i < tup.Len(); i++ {
			ts = append(ts, vc.fresh(fr.prefix+x.Name(), d.sortOf(tup.At(i).Type())))
		}
		fr.vals[x] = ts
		return
	}
	mt := rng.X.Type().Underlying().(*types.Map)
	m := fr.v1(rng.X)
	okc := vc.fresh(fr.prefix+x.Name()+".ok", "Bool")
	k := vc.fresh(fr.prefix+x.Name()+".k", d.sortOf(mt.Key()))
	vis := vc.stGet(st, key)
	inDom, val := fr.mapDomVal(st, mt, m, k)
	ks := d.sortOf(mt.Key())
	// ok => k in dom, not visited; !ok => every key in dom visited
	*pc = fr.assume(*pc, fmt.Sprintf("(and (=> %s (and %s (not (select %s %s)))) (=> (not %s) (forall ((kk %s)) (! (=> (and (not (= %s 0)) (select (select %s %s) kk)) (select %s kk)) :pattern ((select %s kk)) :pattern ((select (select %s %s) kk))))))",
		okc, inDom, vis, k, okc, ks, m, vc.stGet(st, firstOf(d.mapHeaps(mt))), m, vis, vis, vc.stGet(st, firstOf(d.mapHeaps(mt))), m))
	v := vc.define(fr.prefix+x.Name()+".v", d.sortOf(mt.Elem()), val)
	vc.stSet(st, key, ite(okc, fmt.Sprintf("(store %s %s true)", vis, k), vis))
	fr.vals[x] = []string{okc, k, v}
	*pc = fr.assume(*pc, vc.typeAssume(k, mt.Key(), st))
	*pc = fr.assume(*pc, vc.typeAssume(v, mt.Elem(), st))
}

func firstOf(a, b, c string) string { return a }

// calleeNames returns the names under which a callee can be referred to in contracts and site patterns.
func calleeNames(c *ssa.CallCommon) []string {
	var out []string
	if c.IsInvoke() {
		recv := c.Value.Type()
		full := typeName(recv) + "." + c.Method.Name()
		out = append(out, c.Method.FullName())
		out = append(out, full)
		if n, ok := recv.(*types.Named); ok {
			out = append(out, n.Obj().Name()+"."+c.Method.Name())
			if n.Obj().Pkg() != nil {
				out = append(out, n.Obj().Pkg().Name()+"."+n.Obj().Name()+"."+c.Method.Name())
			}
		}
		out = append(out, "."+c.Method.Name())
		return out
	}
	if b, ok := c.Value.(*ssa.Builtin); ok {
		return []string{"builtin." + b.Name(), b.Name()}
	}
	if f := c.StaticCallee(); f != nil {
		return funcNames(f)
	}
	return []string{"<dynamic>"}
}

func funcNames(f *ssa.Function) []string {
	var out []string
	out = append(out, f.String())
	short := f.String()
	if f.Pkg != nil {
		short = strings.ReplaceAll(short, f.Pkg.Pkg.Path()+".", "")
		out = append(out, short)
		out = append(out, strings.ReplaceAll(f.String(), f.Pkg.Pkg.Path()+".", f.Pkg.Pkg.Name()+"."))
	} else if f.Signature.Recv() != nil {
		// methods of instantiated generics or external packages without ssa pkg
		out = append(out, f.Name())
	}
	if f.Signature.Recv() != nil {
		out = append(out, "."+f.Name())
		rt := f.Signature.Recv().Type()
		out = append(out, "("+typeNameShort(rt)+")."+f.Name())
	}
	if o := f.Origin(); o != nil && o != f {
		out = append(out, funcNames(o)...)
	}
	return out
}

func typeNameShort(t types.Type) string {
	return types.TypeString(t, func(p *types.Package) string { return p.Name() })
}

func isByteSlice(t types.Type) bool {
	s, ok := t.Underlying().(*types.Slice)
	if !ok {
		return false
	}
	b, ok := s.Elem().Underlying().(*types.Basic)
	return ok && b.Kind() == types.Uint8
}

// bytesToStr: string(b) as an uninterpreted function of the backing array, offset and length.
func (vc *VC) bytesToStr(st *State, sl string) string {
	d := vc.d
	ss := d.sortOf(types.Typ[types.String])
	d.add("bytes2str", fmt.Sprintf("(declare-fun bytes2str ((Array Int Int) Int Int) %s)", ss))
	h := d.sliceHeap(types.Typ[types.Uint8])
	off := "(s.off " + sl + ")"
	if p := slParts(sl); p != nil {
		off = p[1]
	}
	return fmt.Sprintf("(bytes2str (select %s %s) %s %s)", vc.stGet(st, h), slArr(sl), off, slLen(sl))
}
