package main

// Translation of contract expressions to SMT terms (typed with go/types).

import (
	"fmt"
	"go/constant"
	"go/types"
	"sort"
	"strings"
)

type tv struct {
	t       string
	ty      types.Type // nil for untyped nil
	addr    bool       // t is the address of a struct of type ty.(*types.Pointer).Elem() reached by field selection
	isNil   bool
	untyped bool
	boxed   types.Type // iface(x): static type of x
}

type SpecEnv struct {
	vc        *VC
	pkgPath   string
	pkg       *types.Package
	vars      map[string]tv
	lazy      map[string]*Loc
	st, old   *State
	hash      map[string]tv
	typeOnly  bool
	qn        int
	heapParam map[string]string // when translating ghost function bodies: heap name -> formal parameter
	heapUsed  map[string]bool
	fuelTerm  string                // fuel passed to fuel-encoded ghost functions ("" => the default two unfoldings)
	tpBind    map[string]types.Type // type parameters of a generic ghost function bound by the call's argument types
	genFuel   bool                  // translating an assumption: fuel-encoded applications under a quantifier get a bound fuel variable
	inQuant   int
}

const (
	fuelAssume = 6
	fuelAssert = 7
)

// assumeExpr translates a formula that is going to be ASSUMED (fuel-encoded ghost functions get the lower fuel).
func (e *SpecEnv) assumeExpr(x Expr) (string, error) {
	sub := *e
	sub.genFuel = true
	return sub.boolExpr(x)
}

func (vc *VC) newEnv(pkgPath string, st *State) *SpecEnv {
	e := &SpecEnv{vc: vc, pkgPath: pkgPath, vars: map[string]tv{}, lazy: map[string]*Loc{}, st: st, old: st, hash: map[string]tv{}}
	if p := vc.g.typesPkg(pkgPath); p != nil {
		e.pkg = p
	}
	return e
}

func (e *SpecEnv) heap(name string) string {
	if e.heapParam != nil {
		e.heapUsed[name] = true
		return sym("hp!" + name)
	}
	if e.typeOnly || e.st == nil {
		return "?"
	}
	return e.vc.stGet(e.st, name)
}

func (e *SpecEnv) withState(st *State) *SpecEnv {
	n := *e
	n.st = st
	return &n
}

func (e *SpecEnv) boolExpr(x Expr) (string, error) {
	t, err := e.expr(x)
	if err != nil {
		return "", err
	}
	if e.vc.d.sortOf(t.ty) != "Bool" {
		return "", fmt.Errorf("expected boolean expression, got %s in %s", t.ty, x.String())
	}
	return t.t, nil
}

var tInt = types.Typ[types.Int]
var tBool = types.Typ[types.Bool]
var tString = types.Typ[types.String]

func (e *SpecEnv) resolveType(t *TypeExpr) (types.Type, error) {
	if len(t.Args) > 0 {
		bare := *t
		bare.Args = nil
		sub := *e
		sub.tpBind = map[string]types.Type{"\x00noinst": nil} // keep the generic type uninstantiated
		gt, err := sub.resolveType(&bare)
		if err != nil {
			return nil, err
		}
		n, ok := gt.(*types.Named)
		if !ok || n.TypeParams().Len() != len(t.Args) {
			return nil, fmt.Errorf("type %s does not take %d type arguments", bare.String(), len(t.Args))
		}
		var targs []types.Type
		for _, a := range t.Args {
			at, err := e.resolveType(a)
			if err != nil {
				return nil, err
			}
			targs = append(targs, at)
		}
		return types.Instantiate(nil, n, targs, false)
	}
	switch t.Kind {
	case "ptr":
		el, err := e.resolveType(t.Elem)
		if err != nil {
			return nil, err
		}
		return types.NewPointer(el), nil
	case "slice":
		el, err := e.resolveType(t.Elem)
		if err != nil {
			return nil, err
		}
		return types.NewSlice(el), nil
	case "map":
		k, err := e.resolveType(t.Key)
		if err != nil {
			return nil, err
		}
		v, err := e.resolveType(t.Elem)
		if err != nil {
			return nil, err
		}
		return &ghostMap{k, v}, nil
	}
	if t.Pkg == "" {
		if o := types.Universe.Lookup(t.Name); o != nil {
			if tn, ok := o.(*types.TypeName); ok {
				return tn.Type(), nil
			}
		}
		if e.pkg != nil {
			if o := e.pkg.Scope().Lookup(t.Name); o != nil {
				if tn, ok := o.(*types.TypeName); ok {
					return e.instantiateWithCurrent(tn.Type()), nil
				}
			}
		}
		if tp, ok := e.tpBind[t.Name]; ok {
			return tp, nil
		}
		if tp := e.vc.typeParam(t.Name); tp != nil {
			return tp, nil
		}
		return nil, fmt.Errorf("unknown type %s", t.Name)
	}
	p := e.vc.g.importedPkgWith(e.pkg, t.Pkg, t.Name)
	if p == nil {
		return nil, fmt.Errorf("unknown package %s in type %s", t.Pkg, t.String())
	}
	if o := p.Scope().Lookup(t.Name); o != nil {
		if tn, ok := o.(*types.TypeName); ok {
			return e.instantiateWithCurrent(tn.Type()), nil
		}
	}
	return nil, fmt.Errorf("unknown type %s", t.String())
}

// instantiateWithCurrent: a generic named type written without type arguments in a contract of a generic function
// means the instance over that function's own type parameters of the same names (WrapMap == WrapMap[K, V]).
func (e *SpecEnv) instantiateWithCurrent(t types.Type) types.Type {
	n, ok := t.(*types.Named)
	if !ok || n.TypeParams().Len() == 0 || n.TypeArgs().Len() > 0 {
		return t
	}
	if _, noinst := e.tpBind["\x00noinst"]; noinst {
		return t
	}
	var targs []types.Type
	for i := 0; i < n.TypeParams().Len(); i++ {
		tp, ok := e.tpBind[n.TypeParams().At(i).Obj().Name()]
		if !ok {
			tp = e.vc.typeParam(n.TypeParams().At(i).Obj().Name())
		}
		if tp == nil {
			return t
		}
		targs = append(targs, tp)
	}
	inst, err := types.Instantiate(nil, n, targs, false)
	if err != nil {
		return t
	}
	return inst
}

func (e *SpecEnv) resolveTypeIn(pkgPath string, t *TypeExpr) (types.Type, error) {
	sub := e.vc.newEnv(pkgPath, nil)
	return sub.resolveType(t)
}

// ghostGlobal resolves a package-level ghost variable (a state component of its own).
func (e *SpecEnv) ghostGlobal(pkgPath, name string) (tv, bool) {
	te, ok := e.vc.g.ghostGlobals[pkgPath+"."+name]
	if !ok {
		return tv{}, false
	}
	ty, err := e.resolveTypeIn(pkgPath, te)
	if err != nil {
		return tv{}, false
	}
	h := ghostGlobalHeap(pkgPath, name)
	if _, ok := e.vc.d.heapSort[h]; !ok {
		e.vc.d.heapSort[h] = e.vc.d.sortOf(ty)
	}
	return tv{t: e.heap(h), ty: ty}, true
}

func ghostGlobalHeap(pkgPath, name string) string { return "HG." + shortKey(pkgPath) + "." + name }

func (e *SpecEnv) constObj(c *types.Const) tv {
	d := e.vc.d
	switch c.Val().Kind() {
	case constant.Bool:
		return tv{t: fmt.Sprint(constant.BoolVal(c.Val())), ty: c.Type()}
	case constant.String:
		return tv{t: d.strLit(constant.StringVal(c.Val())), ty: c.Type()}
	case constant.Int:
		return tv{t: intTerm(c.Val().ExactString()), ty: c.Type()}
	case constant.Float:
		f, _ := constant.Float64Val(c.Val())
		return tv{t: fmt.Sprintf("%f", f), ty: c.Type()}
	}
	return tv{t: "0", ty: c.Type()}
}

func (e *SpecEnv) lookupPkgObj(p *types.Package, name string) (tv, bool, error) {
	if p == nil {
		return tv{}, false, nil
	}
	o := p.Scope().Lookup(name)
	if o == nil {
		return tv{}, false, nil
	}
	switch x := o.(type) {
	case *types.Const:
		return e.constObj(x), true, nil
	case *types.Var:
		// package-level variable: read through its global cell
		g := e.vc.g.globalFor(x)
		if g == nil {
			return tv{}, false, fmt.Errorf("global %s not found in SSA", name)
		}
		ref := e.vc.globalRef(g)
		if _, ok := isStructT(x.Type()); ok {
			return tv{t: ref, ty: types.NewPointer(x.Type()), addr: true}, true, nil
		}
		if arr, ok := x.Type().Underlying().(*types.Array); ok {
			return tv{t: fmt.Sprintf("(select %s %s)", e.heap(e.vc.d.sliceHeap(arr.Elem())), ref), ty: x.Type()}, true, nil
		}
		return tv{t: fmt.Sprintf("(select %s %s)", e.heap(e.vc.d.cellHeap(x.Type())), ref), ty: x.Type()}, true, nil
	}
	return tv{}, false, nil
}

func (e *SpecEnv) expr(x Expr) (tv, error) {
	vc := e.vc
	d := vc.d
	switch n := x.(type) {
	case *EInt:
		return tv{t: n.Val, ty: tInt, untyped: true}, nil
	case *EStr:
		return tv{t: d.strLit(n.Val), ty: tString, untyped: true}, nil
	case *EBool:
		return tv{t: fmt.Sprint(n.Val), ty: tBool}, nil
	case *ENil:
		return tv{t: "0", isNil: true}, nil
	case *EHash:
		if v, ok := e.hash[n.Name]; ok {
			return v, nil
		}
		return tv{}, fmt.Errorf("unknown #%s here", n.Name)
	case *EIdent:
		if v, ok := e.vars[n.Name]; ok {
			return v, nil
		}
		if l, ok := e.lazy[n.Name]; ok {
			if e.st == nil {
				return tv{t: "?", ty: l.ty}, nil
			}
			if l.structRef != "" {
				return tv{t: l.structRef, ty: types.NewPointer(l.structT), addr: true}, nil
			}
			return tv{t: vc.loadLoc(e.st, l), ty: l.ty}, nil
		}
		if gv, ok := e.ghostGlobal(e.pkgPath, n.Name); ok {
			return gv, nil
		}
		v, ok, err := e.lookupPkgObj(e.pkg, n.Name)
		if err != nil {
			return tv{}, err
		}
		if ok {
			return v, nil
		}
		return tv{}, fmt.Errorf("unknown identifier %s", n.Name)
	case *EOld:
		if e.old == nil {
			return tv{}, fmt.Errorf("old() not available here")
		}
		return e.withState(e.old).expr(n.X)
	case *EUnary:
		a, err := e.expr(n.X)
		if err != nil {
			return tv{}, err
		}
		if n.Op == "!" {
			return tv{t: not(a.t), ty: tBool}, nil
		}
		return tv{t: "(- " + a.t + ")", ty: a.ty, untyped: a.untyped}, nil
	case *EBinary:
		return e.binary(n)
	case *EIte:
		c, err := e.boolExpr(n.C)
		if err != nil {
			return tv{}, err
		}
		a, err := e.expr(n.A)
		if err != nil {
			return tv{}, err
		}
		b, err := e.expr(n.B)
		if err != nil {
			return tv{}, err
		}
		a, b = e.unify(a, b)
		if a.addr || b.addr {
			// pointer-valued conditional: keep addresses as pointer values
			a, b = asPtr(a), asPtr(b)
		} else {
			a, b = e.deref(a), e.deref(b)
		}
		return tv{t: ite(c, a.t, b.t), ty: pickType(a, b)}, nil
	case *ELet:
		v, err := e.expr(n.Val)
		if err != nil {
			return tv{}, err
		}
		sub := *e
		sub.vars = copyVars(e.vars)
		sub.vars[n.Name] = v
		return sub.expr(n.Body)
	case *EQuant:
		sub := *e
		sub.vars = copyVars(e.vars)
		var bs []string
		var guards []string
		for _, qv := range n.Vars {
			ty, err := e.resolveType(qv.T)
			if err != nil {
				return tv{}, err
			}
			e.qn++
			nm := sym(fmt.Sprintf("q!%s", qv.Name))
			bs = append(bs, fmt.Sprintf("(%s %s)", nm, d.sortOf(ty)))
			sub.vars[qv.Name] = tv{t: nm, ty: ty}
			if g := vc.typeAssume(nm, ty, nil); g != "true" {
				guards = append(guards, g)
			}
		}
		sub.inQuant++
		body, err := sub.boolExpr(n.Body)
		if err != nil {
			return tv{}, err
		}
		q := "exists"
		if n.Forall {
			q = "forall"
			if len(guards) > 0 {
				body = implies(and(guards...), body)
			}
		} else if len(guards) > 0 {
			body = and(append(guards, body)...)
		}
		return tv{t: fmt.Sprintf("(%s (%s) %s)", q, strings.Join(bs, " "), body), ty: tBool}, nil
	case *ESel:
		return e.sel(n)
	case *EIndex:
		a, err := e.expr(n.X)
		if err != nil {
			return tv{}, err
		}
		i, err := e.expr(n.I)
		if err != nil {
			return tv{}, err
		}
		a = e.deref(a)
		if gm, ok := a.ty.(*ghostMap); ok {
			return tv{t: fmt.Sprintf("(select %s %s)", a.t, i.t), ty: gm.val}, nil
		}
		switch u := a.ty.Underlying().(type) {
		case *types.Slice:
			return tv{t: fmt.Sprintf("(select (select %s %s) %s)", e.heap(d.sliceHeap(u.Elem())), slArr(a.t), slIdx(a.t, i.t)), ty: u.Elem()}, nil
		case *types.Array:
			return tv{t: fmt.Sprintf("(select %s %s)", a.t, i.t), ty: u.Elem()}, nil
		case *types.Map:
			// Go semantics: zero value for absent keys and nil maps
			dom, valh, _ := d.mapHeaps(u)
			return tv{t: fmt.Sprintf("(ite (and (not (= %s 0)) (select (select %s %s) %s)) (select (select %s %s) %s) %s)", a.t, e.heap(dom), a.t, i.t, e.heap(valh), a.t, i.t, d.zero(u.Elem())), ty: u.Elem()}, nil
		case *types.Basic:
			if d.sortOf(a.ty) == "String" {
				return tv{t: fmt.Sprintf("(str.to_code (str.at %s %s))", a.t, i.t), ty: types.Typ[types.Uint8]}, nil
			}
		}
		return tv{}, fmt.Errorf("cannot index %s (type %s)", n.X.String(), a.ty)
	case *ESlice:
		a, err := e.expr(n.X)
		if err != nil {
			return tv{}, err
		}
		lo := "0"
		if n.Lo != nil {
			l, err := e.expr(n.Lo)
			if err != nil {
				return tv{}, err
			}
			lo = l.t
		}
		if d.sortOf(a.ty) == "String" {
			hi := fmt.Sprintf("(str.len %s)", a.t)
			if n.Hi != nil {
				h, err := e.expr(n.Hi)
				if err != nil {
					return tv{}, err
				}
				hi = h.t
			}
			return tv{t: fmt.Sprintf("(str.substr %s %s (- %s %s))", a.t, lo, hi, lo), ty: a.ty}, nil
		}
		if _, ok := a.ty.Underlying().(*types.Slice); ok {
			hi := fmt.Sprintf("(s.len %s)", a.t)
			if n.Hi != nil {
				h, err := e.expr(n.Hi)
				if err != nil {
					return tv{}, err
				}
				hi = h.t
			}
			return tv{t: fmt.Sprintf("(mk-slice (s.arr %s) (+ (s.off %s) %s) (- %s %s) (- (s.cap %s) %s))", a.t, a.t, lo, hi, lo, a.t, lo), ty: a.ty}, nil
		}
		return tv{}, fmt.Errorf("cannot slice %s", n.X.String())
	case *EIs:
		a, err := e.expr(n.X)
		if err != nil {
			return tv{}, err
		}
		ty, err := e.resolveType(n.T)
		if err != nil {
			return tv{}, err
		}
		if d.sortOf(a.ty) != "Iface" {
			return tv{}, fmt.Errorf("'is' needs an interface value: %s", n.X.String())
		}
		return tv{t: fmt.Sprintf("(= (i.tag %s) %d)", a.t, d.typeTag(ty)), ty: tBool}, nil
	case *ETypeAssert:
		a, err := e.expr(n.X)
		if err != nil {
			return tv{}, err
		}
		ty, err := e.resolveType(n.T)
		if err != nil {
			return tv{}, err
		}
		if d.sortOf(a.ty) != "Iface" {
			return tv{}, fmt.Errorf("type assertion needs an interface value: %s", n.X.String())
		}
		if isRefLike(ty) {
			return tv{t: fmt.Sprintf("(i.val %s)", a.t), ty: ty}, nil
		}
		_, unbox := d.boxFuns(ty)
		return tv{t: fmt.Sprintf("(%s (i.val %s))", unbox, a.t), ty: ty}, nil
	case *ECall:
		return e.call(n)
	}
	return tv{}, fmt.Errorf("unsupported expression %s", x.String())
}

func copyVars(m map[string]tv) map[string]tv {
	n := make(map[string]tv, len(m)+2)
	for k, v := range m {
		n[k] = v
	}
	return n
}

func pickType(a, b tv) types.Type {
	if a.ty == nil || a.untyped {
		if b.ty != nil {
			return b.ty
		}
	}
	return a.ty
}

// asPtr: an address-of-struct tv used as a pointer value (no load).
func asPtr(a tv) tv {
	if a.addr {
		return tv{t: a.t, ty: a.ty}
	}
	return a
}

// deref: an address-of-struct tv used as a value is loaded.
func (e *SpecEnv) deref(a tv) tv {
	if a.addr {
		el := a.ty.(*types.Pointer).Elem()
		if e.typeOnly || e.st == nil {
			return tv{t: "?", ty: el}
		}
		if e.heapParam != nil {
			// loading a whole struct inside a ghost function body: use field heaps through e.heap
			return tv{t: e.loadStructVia(a.t, el), ty: el}
		}
		return tv{t: e.vc.loadStruct(e.st, a.t, el), ty: el}
	}
	return a
}

func (e *SpecEnv) loadStructVia(ref string, t types.Type) string {
	d := e.vc.d
	s, _ := isStructT(t)
	d.sortOf(t)
	if s.NumFields() == 0 {
		return d.structCtor(t)
	}
	var fs []string
	for i := 0; i < s.NumFields(); i++ {
		ft := s.Field(i).Type()
		if _, ok := isStructT(ft); ok {
			fs = append(fs, e.loadStructVia(fmt.Sprintf("(%s %s)", d.subRef(t, i), ref), ft))
		} else {
			fs = append(fs, fmt.Sprintf("(select %s %s)", e.heap(d.fieldHeap(t, i)), ref))
		}
	}
	return "(" + d.structCtor(t) + " " + strings.Join(fs, " ") + ")"
}

// unify nil against typed operand
func (e *SpecEnv) unify(a, b tv) (tv, tv) {
	d := e.vc.d
	fix := func(n tv, o tv) tv {
		if !n.isNil || o.ty == nil {
			return n
		}
		ot := o.ty
		if o.addr {
			return tv{t: "0", ty: ot}
		}
		return tv{t: d.zero(ot), ty: ot, isNil: true}
	}
	return fix(a, b), fix(b, a)
}

func (e *SpecEnv) binary(n *EBinary) (tv, error) {
	d := e.vc.d
	a, err := e.expr(n.X)
	if err != nil {
		return tv{}, err
	}
	b, err := e.expr(n.Y)
	if err != nil {
		return tv{}, err
	}
	switch n.Op {
	case "&&":
		return tv{t: and(a.t, b.t), ty: tBool}, nil
	case "||":
		return tv{t: or(a.t, b.t), ty: tBool}, nil
	case "==>":
		return tv{t: implies(a.t, b.t), ty: tBool}, nil
	case "<==>":
		return tv{t: fmt.Sprintf("(= %s %s)", a.t, b.t), ty: tBool}, nil
	case "==", "!=":
		var t string
		switch {
		case a.isNil && b.isNil:
			t = "true"
		case a.isNil || b.isNil:
			o := a
			if a.isNil {
				o = b
			}
			if o.addr {
				t = fmt.Sprintf("(= %s 0)", o.t)
			} else {
				switch d.sortOf(o.ty) {
				case "Slice":
					t = fmt.Sprintf("(= (s.arr %s) 0)", o.t)
				case "Iface":
					t = fmt.Sprintf("(= (i.tag %s) 0)", o.t)
				case "Int":
					t = fmt.Sprintf("(= %s 0)", o.t)
				default:
					return tv{}, fmt.Errorf("cannot compare %s with nil", o.ty)
				}
			}
		default:
			if a.addr != b.addr {
				o := b
				if b.addr {
					o = a
				}
				if _, isPtr := o.ty.Underlying().(*types.Pointer); isPtr {
					a, b = asPtr(a), asPtr(b)
				} else {
					a, b = e.deref(a), e.deref(b)
				}
			}
			t = fmt.Sprintf("(= %s %s)", a.t, b.t)
		}
		if n.Op == "!=" {
			t = not(t)
		}
		return tv{t: t, ty: tBool}, nil
	case "in":
		b = e.deref(b)
		if gm, ok := b.ty.(*ghostMap); ok {
			if d.sortOf(gm.val) == "Bool" {
				return tv{t: fmt.Sprintf("(select %s %s)", b.t, a.t), ty: tBool}, nil
			}
			return tv{}, fmt.Errorf("'in' on ghost map with non-bool values")
		}
		if mt, ok := b.ty.Underlying().(*types.Map); ok {
			dom, _, _ := d.mapHeaps(mt)
			return tv{t: fmt.Sprintf("(and (not (= %s 0)) (select (select %s %s) %s))", b.t, e.heap(dom), b.t, a.t), ty: tBool}, nil
		}
		return tv{}, fmt.Errorf("'in' needs a map on the right: %s", n.Y.String())
	}
	srt := d.sortOf(pickType(a, b))
	if srt == "Str" {
		d.strUFDecls()
		switch n.Op {
		case "+":
			return tv{t: fmt.Sprintf("(str.cat %s %s)", a.t, b.t), ty: pickType(a, b)}, nil
		case "<":
			return tv{t: fmt.Sprintf("(str.lt %s %s)", a.t, b.t), ty: tBool}, nil
		}
		return tv{}, fmt.Errorf("unsupported string operator %s with uninterpreted strings", n.Op)
	}
	if srt == "String" {
		switch n.Op {
		case "+":
			return tv{t: fmt.Sprintf("(str.++ %s %s)", a.t, b.t), ty: pickType(a, b)}, nil
		case "<":
			return tv{t: fmt.Sprintf("(str.< %s %s)", a.t, b.t), ty: tBool}, nil
		case "<=":
			return tv{t: fmt.Sprintf("(str.<= %s %s)", a.t, b.t), ty: tBool}, nil
		}
		return tv{}, fmt.Errorf("unsupported string operator %s", n.Op)
	}
	switch n.Op {
	case "<", "<=", ">", ">=":
		return tv{t: fmt.Sprintf("(%s %s %s)", n.Op, a.t, b.t), ty: tBool}, nil
	case "+", "-", "*":
		return tv{t: fmt.Sprintf("(%s %s %s)", n.Op, a.t, b.t), ty: pickType(a, b), untyped: a.untyped && b.untyped}, nil
	case "/":
		if srt == "Real" {
			return tv{t: fmt.Sprintf("(/ %s %s)", a.t, b.t), ty: pickType(a, b)}, nil
		}
		return tv{t: fmt.Sprintf("(div %s %s)", a.t, b.t), ty: pickType(a, b), untyped: a.untyped && b.untyped}, nil
	case "%":
		return tv{t: fmt.Sprintf("(mod %s %s)", a.t, b.t), ty: pickType(a, b), untyped: a.untyped && b.untyped}, nil
	}
	return tv{}, fmt.Errorf("unsupported operator %s", n.Op)
}

// sel: field selection (with embedded-field promotion), package-qualified identifiers.
func (e *SpecEnv) sel(n *ESel) (tv, error) {
	d := e.vc.d
	if id, ok := n.X.(*EIdent); ok {
		if _, isVar := e.vars[id.Name]; !isVar {
			if _, isLazy := e.lazy[id.Name]; !isLazy {
				if p := e.vc.g.importedPkgWith(e.pkg, id.Name, n.Sel); p != nil {
					if gv, ok := e.ghostGlobal(p.Path(), n.Sel); ok {
						return gv, nil
					}
					v, ok, err := e.lookupPkgObj(p, n.Sel)
					if err != nil {
						return tv{}, err
					}
					if ok {
						return v, nil
					}
					return tv{}, fmt.Errorf("unknown %s.%s", id.Name, n.Sel)
				}
			}
		}
	}
	a, err := e.expr(n.X)
	if err != nil {
		return tv{}, err
	}
	if a.ty == nil {
		return tv{}, fmt.Errorf("selection on nil: %s", n.String())
	}
	// slices: pseudo-fields
	obj, index, _ := types.LookupFieldOrMethod(a.ty, true, e.pkgOrNil(), n.Sel)
	fld, ok := obj.(*types.Var)
	if !ok || fld == nil {
		// retry ignoring package for unexported fields of other packages
		obj, index = e.lookupFieldAnyPkg(a.ty, n.Sel)
		fld, ok = obj.(*types.Var)
		if !ok || fld == nil {
			return tv{}, fmt.Errorf("no field %s in %s", n.Sel, a.ty)
		}
	}
	cur := a
	for _, i := range index {
		// cur is: pointer-to-struct value / addr, or struct value
		if pt, isPtr := cur.ty.Underlying().(*types.Pointer); isPtr {
			st := pt.Elem()
			s, ok := isStructT(st)
			if !ok {
				return tv{}, fmt.Errorf("selection through non-struct pointer in %s", n.String())
			}
			ft := s.Field(i).Type()
			if _, isS := isStructT(ft); isS {
				cur = tv{t: fmt.Sprintf("(%s %s)", d.subRef(st, i), cur.t), ty: types.NewPointer(ft), addr: true}
			} else {
				cur = tv{t: fmt.Sprintf("(select %s %s)", e.heap(d.fieldHeap(st, i)), cur.t), ty: ft}
			}
			continue
		}
		s, ok := isStructT(cur.ty)
		if !ok {
			return tv{}, fmt.Errorf("selection on non-struct %s in %s", cur.ty, n.String())
		}
		d.sortOf(cur.ty)
		cur = tv{t: fmt.Sprintf("(%s %s)", d.fieldSel(cur.ty, i), cur.t), ty: s.Field(i).Type()}
	}
	return cur, nil
}

func (e *SpecEnv) pkgOrNil() *types.Package { return e.pkg }

func (e *SpecEnv) lookupFieldAnyPkg(t types.Type, name string) (types.Object, []int) {
	// find the package of the named type and look up there
	var pkg *types.Package
	tt := t
	if p, ok := tt.Underlying().(*types.Pointer); ok {
		tt = p.Elem()
	}
	if n, ok := tt.(*types.Named); ok && n.Obj() != nil {
		pkg = n.Obj().Pkg()
	}
	obj, index, _ := types.LookupFieldOrMethod(t, true, pkg, name)
	if obj != nil {
		return obj, index
	}
	// embedded structs from yet another package: brute force
	var walk func(t types.Type, depth int) (types.Object, []int)
	walk = func(t types.Type, depth int) (types.Object, []int) {
		if depth > 4 {
			return nil, nil
		}
		if p, ok := t.Underlying().(*types.Pointer); ok {
			t = p.Elem()
		}
		s, ok := isStructT(t)
		if !ok {
			return nil, nil
		}
		for i := 0; i < s.NumFields(); i++ {
			if s.Field(i).Name() == name {
				return s.Field(i), []int{i}
			}
		}
		for i := 0; i < s.NumFields(); i++ {
			if s.Field(i).Embedded() {
				if o, idx := walk(s.Field(i).Type(), depth+1); o != nil {
					return o, append([]int{i}, idx...)
				}
			}
		}
		return nil, nil
	}
	return walk(t, 0)
}

func (e *SpecEnv) call(n *ECall) (tv, error) {
	vc := e.vc
	d := vc.d
	argv := func() ([]tv, error) {
		var out []tv
		for _, a := range n.Args {
			v, err := e.expr(a)
			if err != nil {
				return nil, err
			}
			out = append(out, v)
		}
		return out, nil
	}
	if id, ok := n.Fun.(*EIdent); ok {
		switch id.Name {
		case "len", "cap":
			as, err := argv()
			if err != nil {
				return tv{}, err
			}
			if len(as) != 1 {
				return tv{}, fmt.Errorf("%s takes one argument", id.Name)
			}
			a := e.deref(as[0])
			switch u := a.ty.Underlying().(type) {
			case *types.Slice:
				if id.Name == "cap" {
					return tv{t: fmt.Sprintf("(s.cap %s)", a.t), ty: tInt}, nil
				}
				return tv{t: slLen(a.t), ty: tInt}, nil
			case *types.Basic:
				if d.sortOf(u) == "String" {
					return tv{t: fmt.Sprintf("(str.len %s)", a.t), ty: tInt}, nil
				}
				if d.sortOf(u) == "Str" {
					d.strUFDecls()
					return tv{t: fmt.Sprintf("(strlen %s)", a.t), ty: tInt}, nil
				}
			case *types.Map:
				_, _, card := d.mapHeaps(u)
				return tv{t: fmt.Sprintf("(ite (= %s 0) 0 (select %s %s))", a.t, e.heap(card), a.t), ty: tInt}, nil
			case *types.Array:
				return tv{t: fmt.Sprint(u.Len()), ty: tInt}, nil
			case *types.Chan:
				if id.Name == "cap" {
					// capacity of a channel: fixed when it is made
					d.chanCapDecl()
					return tv{t: fmt.Sprintf("(ite (= %s 0) 0 (select %s %s))", a.t, e.heap("$chancap"), a.t), ty: tInt}, nil
				}
			}
			return tv{}, fmt.Errorf("len of %s", a.ty)
		case "contains", "hasPrefix", "hasSuffix", "concat", "itoa", "atoi", "indexOf", "abs", "replaceAll":
			as, err := argv()
			if err != nil {
				return tv{}, err
			}
			switch id.Name {
			case "contains":
				return tv{t: fmt.Sprintf("(str.contains %s %s)", as[0].t, as[1].t), ty: tBool}, nil
			case "hasPrefix":
				return tv{t: fmt.Sprintf("(str.prefixof %s %s)", as[1].t, as[0].t), ty: tBool}, nil
			case "hasSuffix":
				return tv{t: fmt.Sprintf("(str.suffixof %s %s)", as[1].t, as[0].t), ty: tBool}, nil
			case "concat":
				var ts []string
				for _, a := range as {
					ts = append(ts, a.t)
				}
				return tv{t: "(str.++ " + strings.Join(ts, " ") + ")", ty: tString}, nil
			case "itoa":
				return tv{t: fmt.Sprintf("(ite (>= %s 0) (str.from_int %s) (str.++ \"-\" (str.from_int (- %s))))", as[0].t, as[0].t, as[0].t), ty: tString}, nil
			case "atoi":
				return tv{t: fmt.Sprintf("(str.to_int %s)", as[0].t), ty: tInt}, nil
			case "indexOf":
				return tv{t: fmt.Sprintf("(str.indexof %s %s 0)", as[0].t, as[1].t), ty: tInt}, nil
			case "abs":
				return tv{t: fmt.Sprintf("(abs %s)", as[0].t), ty: as[0].ty}, nil
			case "replaceAll":
				return tv{t: fmt.Sprintf("(str.replace_all %s %s %s)", as[0].t, as[1].t, as[2].t), ty: tString}, nil
			}
		case "deref":
			// deref(p): the content of the cell a pointer to a non-struct value points to
			as, err := argv()
			if err != nil {
				return tv{}, err
			}
			a := asPtr(as[0])
			pt, ok := a.ty.Underlying().(*types.Pointer)
			if !ok {
				return tv{}, fmt.Errorf("deref needs a pointer")
			}
			if _, isS := isStructT(pt.Elem()); isS {
				return tv{}, fmt.Errorf("deref of a struct pointer: use field selectors")
			}
			return tv{t: fmt.Sprintf("(select %s %s)", e.heap(d.cellHeap(pt.Elem())), a.t), ty: pt.Elem()}, nil
		case "dom", "vals":
			// dom(m): the key set of a Go map as a mathematical set; vals(m): its key->value function
			as, err := argv()
			if err != nil {
				return tv{}, err
			}
			a := e.deref(as[0])
			mt, ok := a.ty.Underlying().(*types.Map)
			if !ok {
				return tv{}, fmt.Errorf("%s needs a Go map", id.Name)
			}
			dh, vh, _ := d.mapHeaps(mt)
			if id.Name == "dom" {
				ks := d.sortOf(mt.Key())
				return tv{t: fmt.Sprintf("(ite (= %s 0) ((as const (Array %s Bool)) false) (select %s %s))", a.t, ks, e.heap(dh), a.t), ty: &ghostMap{mt.Key(), tBool}}, nil
			}
			return tv{t: fmt.Sprintf("(select %s %s)", e.heap(vh), a.t), ty: &ghostMap{mt.Key(), mt.Elem()}}, nil
		case "iface":
			// iface(x): the interface value holding x (dynamic type = static type of x)
			as, err := argv()
			if err != nil {
				return tv{}, err
			}
			a := asPtr(as[0])
			if a.ty == nil {
				return tv{t: "(mk-iface 0 0)", ty: types.NewInterfaceType(nil, nil)}, nil
			}
			if isRefLike(a.ty) {
				return tv{t: fmt.Sprintf("(mk-iface %d %s)", d.typeTag(a.ty), a.t), ty: types.NewInterfaceType(nil, nil), boxed: a.ty}, nil
			}
			box, _ := d.boxFuns(a.ty)
			return tv{t: fmt.Sprintf("(mk-iface %d (%s %s))", d.typeTag(a.ty), box, a.t), ty: types.NewInterfaceType(nil, nil), boxed: a.ty}, nil
		case "bstr":
			as, err := argv()
			if err != nil {
				return tv{}, err
			}
			a := e.deref(as[0])
			if !isByteSlice(a.ty) {
				return tv{}, fmt.Errorf("bstr needs a []byte")
			}
			ss := d.sortOf(tString)
			d.add("bytes2str", fmt.Sprintf("(declare-fun bytes2str ((Array Int Int) Int Int) %s)", ss))
			off := "(s.off " + a.t + ")"
			if p := slParts(a.t); p != nil {
				off = p[1]
			}
			return tv{t: fmt.Sprintf("(bytes2str (select %s %s) %s %s)", e.heap(d.sliceHeap(types.Typ[types.Uint8])), slArr(a.t), off, slLen(a.t)), ty: tString}, nil
		case "fresh":
			as, err := argv()
			if err != nil {
				return tv{}, err
			}
			if e.st == nil || e.old == nil {
				return tv{t: "true", ty: tBool}, nil
			}
			a := asPtr(as[0])
			ref := a.t
			if d.sortOf(a.ty) == "Slice" {
				ref = fmt.Sprintf("(s.arr %s)", a.t)
			}
			return tv{t: fmt.Sprintf("(and (>= %s %s) (< %s %s))", ref, vc.stGet0(e.old, "$alloc"), ref, vc.stGet0(e.st, "$alloc")), ty: tBool}, nil
		case "disjoint":
			// disjoint(a, b): the two slices have different backing arrays
			as, err := argv()
			if err != nil {
				return tv{}, err
			}
			if len(as) != 2 || d.sortOf(as[0].ty) != "Slice" || d.sortOf(as[1].ty) != "Slice" {
				return tv{}, fmt.Errorf("disjoint needs two slices")
			}
			return tv{t: fmt.Sprintf("(not (= %s %s))", slArr(as[0].t), slArr(as[1].t)), ty: tBool}, nil
		case "typetag":
			as, err := argv()
			if err != nil {
				return tv{}, err
			}
			return tv{t: fmt.Sprintf("(i.tag %s)", as[0].t), ty: tInt}, nil
		case "emptyset", "emptymap":
			return tv{}, fmt.Errorf("%s needs a type context; use ghostvar init 'empty'", id.Name)
		}
		// ghost function?
		if gf := vc.g.ghostFunc(e.pkgPath, id.Name); gf != nil {
			as, err := argv()
			if err != nil {
				return tv{}, err
			}
			return e.applyGhost(gf, as)
		}
		// Go function of this package with an inline contract
		if fc := vc.g.contractByShortName(e.pkgPath, id.Name); fc != nil && fc.Inline {
			as, err := argv()
			if err != nil {
				return tv{}, err
			}
			return e.applyInline(fc, as)
		}
		return tv{}, fmt.Errorf("unknown function %s", id.Name)
	}
	if s, ok := n.Fun.(*ESel); ok {
		// pkg.Func(args) or recv.Method(args)
		if id, ok := s.X.(*EIdent); ok {
			if _, isVar := e.vars[id.Name]; !isVar {
				if p := vc.g.importedPkgWith(e.pkg, id.Name, s.Sel); p != nil {
					if gf := vc.g.ghostFunc(p.Path(), s.Sel); gf != nil {
						as, err := argv()
						if err != nil {
							return tv{}, err
						}
						return e.applyGhost(gf, as)
					}
					if fc := vc.g.contractByShortName(p.Path(), s.Sel); fc != nil && fc.Inline {
						as, err := argv()
						if err != nil {
							return tv{}, err
						}
						return e.applyInline(fc, as)
					}
					return tv{}, fmt.Errorf("function %s.%s has no inline contract / ghost definition", id.Name, s.Sel)
				}
			}
		}
		recv, err := e.expr(s.X)
		if err != nil {
			return tv{}, err
		}
		fc := vc.g.methodContract(recv.ty, s.Sel)
		if fc == nil || !fc.Inline {
			return tv{}, fmt.Errorf("method %s on %s has no inline contract", s.Sel, recv.ty)
		}
		as, err := argv()
		if err != nil {
			return tv{}, err
		}
		return e.applyInline(fc, append([]tv{recv}, as...))
	}
	return tv{}, fmt.Errorf("unsupported call %s", n.String())
}

func (e *SpecEnv) applyInline(fc *FuncContract, as []tv) (tv, error) {
	name, err := e.vc.inlineDef(fc)
	if err != nil {
		return tv{}, err
	}
	sig := e.vc.g.sigOf(fc)
	var ts []string
	for _, a := range as {
		ts = append(ts, e.deref(a).t)
	}
	if len(ts) != len(sig.params) {
		return tv{}, fmt.Errorf("arity mismatch calling %s", fc.Key)
	}
	if len(ts) == 0 {
		return tv{t: name, ty: sig.results[0].ty}, nil
	}
	return tv{t: "(" + name + " " + strings.Join(ts, " ") + ")", ty: sig.results[0].ty}, nil
}

// applyGhost applies a ghost function: heap components it reads are passed explicitly.
func (e *SpecEnv) applyGhost(gf *GhostFunc, as []tv) (tv, error) {
	if len(as) != len(gf.Params) {
		return tv{}, fmt.Errorf("arity mismatch calling ghost %s", gf.Name)
	}
	bind := e.inferTypeBindings(gf, as)
	gd, err := e.vc.ghostDefine(gf, bind)
	if err != nil {
		return tv{}, err
	}
	var ts []string
	for i, a := range as {
		sub := e.vc.newEnv(gf.PkgPath, nil)
		sub.tpBind = bind
		if pt, err := sub.resolveType(gf.Params[i].T); err == nil {
			if _, isPtr := pt.Underlying().(*types.Pointer); isPtr {
				ts = append(ts, asPtr(a).t)
				continue
			}
		}
		ts = append(ts, e.deref(a).t)
	}
	for _, h := range gd.heaps {
		ts = append(ts, e.heap(h))
	}
	if gd.fuel && e.heapParam == nil && e.vc.fn != nil && e.vc.entrySt != nil && len(gd.heaps) > 0 {
		e.vc.bridgeFrame(gd, ts[len(ts)-len(gd.heaps):])
	}
	if gd.fuel {
		// Dafny's scheme: goals carry one more unit of fuel than assumptions. The synonym axiom f(S(fl),x) == f(fl,x)
		// makes every lower-fuel version of a goal term exist, so the instantiation patterns of assumed quantified
		// facts (lower fuel) match them, and the terms those facts produce can still be unfolded.
		fl := e.fuelTerm
		if fl == "" {
			n := fuelAssert
			if e.genFuel {
				n = fuelAssume
			}
			fl = "fuel.Z"
			for i := 0; i < n; i++ {
				fl = "(fuel.S " + fl + ")"
			}
		}
		ts = append([]string{fl}, ts...)
	}
	if len(ts) == 0 {
		return tv{t: gd.name, ty: gd.result}, nil
	}
	return tv{t: "(" + gd.name + " " + strings.Join(ts, " ") + ")", ty: gd.result}, nil
}

// modTargets translates a modifies item into heap targets.
func (e *SpecEnv) modTargets(x Expr) ([]modTarget, error) {
	d := e.vc.d
	switch n := x.(type) {
	case *ESel:
		if id, ok := n.X.(*EIdent); ok {
			if _, isVar := e.vars[id.Name]; !isVar {
				if p := e.vc.g.importedPkg(e.pkg, id.Name); p != nil {
					if _, ok := e.ghostGlobal(p.Path(), n.Sel); ok {
						return []modTarget{{heap: ghostGlobalHeap(p.Path(), n.Sel)}}, nil
					}
				}
			}
		}
		base, err := e.expr(n.X)
		if err != nil {
			return nil, err
		}
		pt, ok := base.ty.Underlying().(*types.Pointer)
		if !ok {
			return nil, fmt.Errorf("modifies %s: base is not a pointer", x.String())
		}
		obj, index := e.lookupFieldAnyPkg(base.ty, n.Sel)
		if obj == nil {
			return nil, fmt.Errorf("modifies %s: no such field", x.String())
		}
		ref := base.t
		st := pt.Elem()
		for k, i := range index {
			s, _ := isStructT(st)
			ft := s.Field(i).Type()
			if k == len(index)-1 {
				if _, isS := isStructT(ft); isS {
					return e.allFieldsTargets(fmt.Sprintf("(%s %s)", d.subRef(st, i), ref), ft), nil
				}
				return []modTarget{{heap: d.fieldHeap(st, i), ref: ref}}, nil
			}
			if _, isS := isStructT(ft); isS {
				ref = fmt.Sprintf("(%s %s)", d.subRef(st, i), ref)
				st = ft
			} else if p2, ok := ft.Underlying().(*types.Pointer); ok {
				ref = fmt.Sprintf("(select %s %s)", e.heap(d.fieldHeap(st, i)), ref)
				st = p2.Elem()
			} else {
				return nil, fmt.Errorf("modifies %s: unsupported path", x.String())
			}
		}
	case *EIndex:
		base, err := e.expr(n.X)
		if err != nil {
			return nil, err
		}
		base = e.deref(base)
		switch u := base.ty.Underlying().(type) {
		case *types.Slice:
			i, err := e.expr(n.I)
			if err != nil {
				return nil, err
			}
			return []modTarget{{heap: d.sliceHeap(u.Elem()), ref: fmt.Sprintf("(s.arr %s)", base.t), idx: fmt.Sprintf("(+ (s.off %s) %s)", base.t, i.t)}}, nil
		case *types.Map:
			a, b, c := d.mapHeaps(u)
			return []modTarget{{heap: a, ref: base.t}, {heap: b, ref: base.t}, {heap: c, ref: base.t}}, nil
		}
	case *ECall:
		if id, ok := n.Fun.(*EIdent); ok && len(n.Args) == 1 && id.Name == "local" {
			// the cell of a named address-taken local variable of the function under verification
			if a, ok := n.Args[0].(*EIdent); ok {
				if l, ok := e.lazy[a.Name]; ok && l != nil && l.heap != "" && l.local == "" && len(l.path) == 0 && !l.opaque {
					return []modTarget{{heap: l.heap, ref: l.idx}}, nil
				}
			}
			return nil, fmt.Errorf("local(%s): not an address-taken local variable", n.Args[0].String())
		}
		if id, ok := n.Fun.(*EIdent); ok && len(n.Args) == 1 {
			base, err := e.expr(n.Args[0])
			if err != nil {
				return nil, err
			}
			switch id.Name {
			case "elems":
				if u, ok := base.ty.Underlying().(*types.Slice); ok {
					return []modTarget{{heap: d.sliceHeap(u.Elem()), ref: fmt.Sprintf("(s.arr %s)", base.t)}}, nil
				}
			case "fields":
				if pt, ok := base.ty.Underlying().(*types.Pointer); ok {
					if _, isS := isStructT(pt.Elem()); isS {
						return e.allFieldsTargets(base.t, pt.Elem()), nil
					}
				}
			case "entries":
				if u, ok := base.ty.Underlying().(*types.Map); ok {
					a, b, c := d.mapHeaps(u)
					return []modTarget{{heap: a, ref: base.t}, {heap: b, ref: base.t}, {heap: c, ref: base.t}}, nil
				}
			case "cell":
				if pt, ok := base.ty.Underlying().(*types.Pointer); ok {
					return []modTarget{{heap: d.cellHeap(pt.Elem()), ref: base.t}}, nil
				}
			case "allof":
				// whole heap component of a field: allof(T.f) is not expressible as an expression; use heapof("name")
			}
		}
	case *EIdent:
		if _, isVar := e.vars[n.Name]; !isVar {
			if _, ok := e.ghostGlobal(e.pkgPath, n.Name); ok {
				return []modTarget{{heap: ghostGlobalHeap(e.pkgPath, n.Name)}}, nil
			}
		}
		base, err := e.expr(n)
		if err != nil {
			return nil, err
		}
		if u, ok := base.ty.Underlying().(*types.Map); ok {
			a, b, c := d.mapHeaps(u)
			return []modTarget{{heap: a, ref: base.t}, {heap: b, ref: base.t}, {heap: c, ref: base.t}}, nil
		}
	}
	return nil, fmt.Errorf("unsupported modifies target %s", x.String())
}

func (e *SpecEnv) allFieldsTargets(ref string, t types.Type) []modTarget {
	d := e.vc.d
	s, _ := isStructT(t)
	var out []modTarget
	for i := 0; i < s.NumFields(); i++ {
		ft := s.Field(i).Type()
		if _, ok := isStructT(ft); ok {
			out = append(out, e.allFieldsTargets(fmt.Sprintf("(%s %s)", d.subRef(t, i), ref), ft)...)
		} else {
			out = append(out, modTarget{heap: d.fieldHeap(t, i), ref: ref})
		}
	}
	return out
}

// syntactic simplification of slice accessors on visible constructors (mk-slice arr off len cap)
func slParts(t string) []string {
	if !strings.HasPrefix(t, "(mk-slice ") || !strings.HasSuffix(t, ")") {
		return nil
	}
	body := t[len("(mk-slice ") : len(t)-1]
	var parts []string
	depth, start := 0, 0
	inBar := false
	for i := 0; i < len(body); i++ {
		c := body[i]
		switch {
		case c == '|':
			inBar = !inBar
		case inBar:
		case c == '(':
			depth++
		case c == ')':
			depth--
		case c == ' ' && depth == 0:
			if i > start {
				parts = append(parts, body[start:i])
			}
			start = i + 1
		}
	}
	if start < len(body) {
		parts = append(parts, body[start:])
	}
	if len(parts) != 4 {
		return nil
	}
	return parts
}

func slArr(t string) string {
	if p := slParts(t); p != nil {
		return p[0]
	}
	return "(s.arr " + t + ")"
}

func slLen(t string) string {
	if p := slParts(t); p != nil {
		return p[2]
	}
	return "(s.len " + t + ")"
}

func slIdx(t, i string) string {
	if p := slParts(t); p != nil {
		if p[1] == "0" {
			return i
		}
		return "(sidx " + p[1] + " " + i + ")"
	}
	return "(sidx (s.off " + t + ") " + i + ")"
}

// bridgeFrame: frame axiom for a heap-dependent (fuel-encoded) ghost function between the heaps of one program state and
// the entry heaps. It is a meta-theorem of the memory model (by induction on the unfolding): the entry heap is closed, so
// from arguments that existed at entry the function only reads cells of objects that existed at entry; if the two heaps
// agree on all of those, the values agree.
func (vc *VC) bridgeFrame(gd *ghostDef, hs []string) {
	var h0 []string
	same := true
	for i, h := range gd.heaps {
		t := vc.stGet(vc.entrySt, h)
		h0 = append(h0, t)
		if t != hs[i] {
			same = false
		}
	}
	if same {
		return
	}
	key := strings.Join(hs, " ")
	if gd.bridged == nil {
		gd.bridged = map[string]bool{}
	}
	if gd.bridged[key] {
		return
	}
	gd.bridged[key] = true
	var q, args, entryArgs, agree []string
	q = append(q, "(fl! Fuel)")
	for _, p := range gd.params {
		q = append(q, fmt.Sprintf("(%s %s)", p[0], strings.TrimPrefix(p[1], "abstract:")))
		args = append(args, p[0])
		switch p[1] {
		case "Int":
			entryArgs = append(entryArgs, fmt.Sprintf("(< (rootref %s) $alloc@0)", p[0]))
		case "Iface":
			entryArgs = append(entryArgs, fmt.Sprintf("(< (rootref (i.val %s)) $alloc@0)", p[0]))
		case "Slice":
			entryArgs = append(entryArgs, fmt.Sprintf("(< (rootref (s.arr %s)) $alloc@0)", p[0]))
		}
	}
	for i := range hs {
		if hs[i] != h0[i] {
			agree = append(agree, fmt.Sprintf("(forall ((r! Int)) (=> (< (rootref r!) $alloc@0) (= (select %s r!) (select %s r!))))", hs[i], h0[i]))
		}
	}
	t1 := fmt.Sprintf("(%s fl! %s %s)", gd.name, strings.Join(args, " "), strings.Join(hs, " "))
	t0 := fmt.Sprintf("(%s fl! %s %s)", gd.name, strings.Join(args, " "), strings.Join(h0, " "))
	vc.defs = append(vc.defs, fmt.Sprintf("(assert (=> %s (forall (%s) (! (=> %s (= %s %s)) :pattern (%s) :pattern (%s)))))",
		and(agree...), strings.Join(q, " "), and(append(entryArgs, "true")...), t1, t0, t1, t0))
	vc.note("frame axiom assumed for heap-dependent ghost function %s (entry-allocated arguments; heaps agreeing on entry-allocated objects)", gd.name)
}

// inferTypeBindings: a ghost function of a generic package is written over the package's type-parameter names (K, V);
// at a call the names are bound from the argument types: a parameter declared with a bare type-parameter name takes the
// argument's type, a parameter declared with a generic named type takes that type's arguments.
func (e *SpecEnv) inferTypeBindings(gf *GhostFunc, as []tv) map[string]types.Type {
	bind := map[string]types.Type{}
	for k, v := range e.tpBind {
		bind[k] = v
	}
	pkg := e.vc.g.typesPkg(gf.PkgPath)
	for i := range gf.Params {
		// any argument of an instantiated generic named type binds that type's parameter names
		an := as[i].ty
		if as[i].boxed != nil {
			an = as[i].boxed
		}
		if an == nil {
			continue
		}
		if pt, ok := an.(*types.Pointer); ok {
			an = pt.Elem()
		}
		if inst, ok := an.(*types.Named); ok && inst.TypeArgs().Len() > 0 && inst.Origin().TypeParams().Len() == inst.TypeArgs().Len() {
			for j := 0; j < inst.TypeArgs().Len(); j++ {
				if _, done := bind[inst.Origin().TypeParams().At(j).Obj().Name()]; !done {
					bind[inst.Origin().TypeParams().At(j).Obj().Name()] = inst.TypeArgs().At(j)
				}
			}
		}
	}
	for i, p := range gf.Params {
		if p.T == nil || p.T.Kind != "" && p.T.Kind != "name" || p.T.Pkg != "" || as[i].ty == nil {
			continue
		}
		te := p.T
		if types.Universe.Lookup(te.Name) != nil {
			continue
		}
		var declared types.Object
		if pkg != nil {
			declared = pkg.Scope().Lookup(te.Name)
		}
		at := as[i].ty
		if declared == nil {
			if _, isGM := at.(*ghostMap); !isGM {
				if _, done := bind[te.Name]; !done {
					bind[te.Name] = at
				}
			}
			continue
		}
		if tn, ok := declared.(*types.TypeName); ok {
			if gen, ok := tn.Type().(*types.Named); ok && gen.TypeParams().Len() > 0 {
				an := at
				if as[i].boxed != nil {
					an = as[i].boxed
				}
				if pt, ok := an.(*types.Pointer); ok {
					an = pt.Elem()
				}
				if inst, ok := an.(*types.Named); ok && inst.TypeArgs().Len() > 0 && inst.Origin().TypeParams().Len() == inst.TypeArgs().Len() {
					for j := 0; j < inst.TypeArgs().Len(); j++ {
						bind[inst.Origin().TypeParams().At(j).Obj().Name()] = inst.TypeArgs().At(j)
					}
				}
			}
		}
	}
	if len(bind) == 0 {
		return nil
	}
	return bind
}

func bindKey(bind map[string]types.Type) string {
	if len(bind) == 0 {
		return ""
	}
	var ks []string
	for k := range bind {
		ks = append(ks, k)
	}
	sort.Strings(ks)
	var out []string
	for _, k := range ks {
		out = append(out, typeName(bind[k]))
	}
	return "<" + strings.Join(out, ",") + ">"
}
