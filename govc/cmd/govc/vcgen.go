package main

// Verification-condition generator over go/ssa (DESIGN §2).
//
// Encoding: every SSA value becomes an SMT constant defined by an (unconditional) equation; every basic
// block has a path condition; heap regions / ghost variables are threaded as a state map with ite-merges at
// joins; loops are cut at their headers (Floyd-Hoare): invariant asserted on entry and on every back edge,
// loop-modified values and state havocked at the header, invariant assumed there.
// An obligation is  (decls, defs) |= pc => goal  and is discharged by checking  pc && !goal  unsat.

import (
	"fmt"
	"go/constant"
	"go/token"
	"go/types"
	"sort"
	"strings"

	"golang.org/x/tools/go/ssa"
)

type Obligation struct {
	Name           string
	Func           string
	Kind           string // ensures, requires, loop-init, loop-preserve, site, safety, lemma, modifies, cover, smoke, goframe, frame
	PC             string
	Goal           string
	Src            string
	Props          []string
	WantSat        bool // vacuity guard: query (pc) must be satisfiable
	ExpectedToFail bool // listed in known_findings.txt as known: (short solver budget)
	Prelude        *VC
	Extra          string // extra declarations after prelude
	Result         *SolveResult
	ReplayFn       string
	fc             *FuncContract // ensures obligations: the contract, the clause and the SMT terms of the parameters (for replay)
	clause         Expr
	paramTerms     []string
}

// State maps state components (heap regions, ghost variables, $alloc) to SMT terms. Components that have not been
// touched yet are resolved lazily by stGet through the epoch descriptor: base/havoc epochs give an unconstrained
// constant per component, "alloc" epochs (after a call with a frame) give a constant equal to the parent's version on
// all objects that existed before the call, "merge" epochs give the ite of the merged predecessors.
type State struct {
	m     map[string]string
	epoch int
	ep    *epochInfo
}

type epochInfo struct {
	keep   map[string]bool // kind keepfresh: heap components whose objects allocated by this invocation are preserved
	kind   string          // "", "alloc", "merge", "keepfresh"
	parent *State
	bound  string // alloc watermark before the call (kind alloc)
	conds  []string
	sts    []*State
	havoc  bool // some havoc-all happened on the way (for frame checks)
}

func (s *State) clone() *State {
	n := &State{m: make(map[string]string, len(s.m)), epoch: s.epoch, ep: s.ep}
	for k, v := range s.m {
		n.m[k] = v
	}
	return n
}

// havocked reports whether an unconstrained havoc of the whole heap lies between the base epoch and this state.
func (s *State) havocked() bool {
	if s.epoch == 0 {
		return false
	}
	if s.ep == nil {
		return true
	}
	switch s.ep.kind {
	case "keepfresh":
		return true
	case "alloc":
		return s.ep.parent.havocked()
	case "merge":
		for _, p := range s.ep.sts {
			if p.havocked() {
				return true
			}
		}
		return false
	}
	return true
}

type VC struct {
	g      *Gen
	d      *Decls
	fn     *ssa.Function
	c      *FuncContract
	name   string
	consts []string // declarations of constants (in order)
	defs   []string // assertions (definitions / axioms)
	cdecl  map[string]bool
	obls   []*Obligation
	nfresh int
	nepoch int
	notes  map[string]bool // abstractions used
	frames int
	ghostT map[string]types.Type
	// inlining
	inlineDepth int
	curProps    []string
	strLits     map[string]bool
	ghostDefs   map[string]*ghostDef
	heapsRead   map[string]bool
	failed      error
	entrySt     *State
	pureDefs    map[string]bool
	definingRec map[string]bool
	closed      bool // closed-term mode (inline definitions): no fresh constants allowed
	frameOn     bool
	frameTg     map[string][]modTarget
	immutable   map[string]bool // heap components assumed never written by unknown code (immutable struct fields)
}

// frameGoal: heap component h (current term cur) agrees with the entry state outside the modifies set, for objects
// that existed at entry. Returns "" if h is not an address-indexed heap or is wholly modifiable.
func (vc *VC) frameGoal(h, cur string) string {
	srt, ok := vc.d.heapSort[h]
	if !ok || strings.HasPrefix(h, "$") {
		return ""
	}
	old := vc.stGet(vc.entrySt, h)
	if cur == old {
		return ""
	}
	if !strings.HasPrefix(srt, "(Array Int ") {
		// scalar state component (package-level ghost variable)
		for _, t := range vc.frameTg[h] {
			if t.ref == "" {
				return ""
			}
		}
		return fmt.Sprintf("(= %s %s)", cur, old)
	}
	var excl, idxExcl []string
	for _, t := range vc.frameTg[h] {
		if t.ref == "" {
			return ""
		}
		if t.idx != "" {
			idxExcl = append(idxExcl, fmt.Sprintf("(and (= r %s) (= j %s))", t.ref, t.idx))
		} else {
			excl = append(excl, fmt.Sprintf("(= r %s)", t.ref))
		}
	}
	if len(idxExcl) > 0 {
		return fmt.Sprintf("(forall ((r Int) (j Int)) (=> (and (< (rootref r) $alloc@0) (not %s) (not %s)) (= (select (select %s r) j) (select (select %s r) j))))",
			or(excl...), or(idxExcl...), cur, old)
	}
	return fmt.Sprintf("(forall ((r Int)) (=> (and (< (rootref r) $alloc@0) (not %s)) (= (select %s r) (select %s r))))", or(excl...), cur, old)
}

type ghostDef struct {
	fuel    bool
	params  [][2]string     // (name, sort) of the declared parameters
	bridged map[string]bool // heap tuples already related to the entry heaps by a frame axiom
	name    string
	heaps   []string
	result  types.Type
}

func (vc *VC) note(f string, a ...interface{}) { vc.notes[fmt.Sprintf(f, a...)] = true }

func (vc *VC) fresh(hint, sort string) string {
	if vc.closed && vc.failed == nil {
		vc.failed = fmt.Errorf("fresh value %s needed in closed-term mode", hint)
	}
	return vc.freshName(hint, sort)
}

func (vc *VC) freshName(hint, sort string) string {
	vc.nfresh++
	n := sym(fmt.Sprintf("%s!%d", hint, vc.nfresh))
	vc.declare(n, sort)
	return n
}

func (vc *VC) declare(name, sort string) {
	if vc.cdecl[name] {
		return
	}
	vc.cdecl[name] = true
	vc.consts = append(vc.consts, fmt.Sprintf("(declare-const %s %s)", name, sort))
}

// define introduces a named constant equal to term (keeps terms small, shows up in models).
func (vc *VC) define(hint, sort, term string) string {
	if vc.closed && strings.Contains(term, "p!") {
		return term
	}
	if len(term) < 24 && !strings.Contains(term, " ") {
		return term
	}
	if strings.HasPrefix(term, "(mk-slice ") && len(term) < 200 {
		return term // keep slice constructors visible: offsets/lengths simplify syntactically
	}
	n := vc.freshName(hint, sort)
	vc.defs = append(vc.defs, fmt.Sprintf("(assert (= %s %s))", n, term))
	return n
}

func (vc *VC) axiom(term string) { vc.defs = append(vc.defs, "(assert "+term+")") }

func (vc *VC) stGet(st *State, name string) string {
	if t, ok := st.m[name]; ok {
		return t
	}
	srt, ok := vc.d.heapSort[name]
	if !ok {
		panic("unknown state component " + name)
	}
	vc.heapsRead[name] = true
	if vc.immutable[name] {
		// immutable field: unknown code never writes it, so every epoch sees the entry version
		n0 := sym(fmt.Sprintf("%s@e0", name))
		vc.declare(n0, srt)
		vc.note("field heap %s assumed immutable after construction (contracts/ext immutable directive)", name)
		return n0
	}
	n := sym(fmt.Sprintf("%s@e%d", name, st.epoch))
	if vc.cdecl[n] {
		return n
	}
	vc.declare(n, srt)
	if st.ep != nil {
		switch st.ep.kind {
		case "keepfresh":
			if st.ep.keep[name] && strings.HasPrefix(srt, "(Array Int ") {
				old := vc.stGet(st.ep.parent, name)
				vc.axiom(fmt.Sprintf("(forall ((r Int)) (! (=> (>= (rootref r) $alloc@0) (= (select %s r) (select %s r))) :pattern ((select %s r))))", n, old, n))
			}
		case "alloc":
			old := vc.stGet(st.ep.parent, name)
			if strings.HasPrefix(srt, "(Array Int ") && !strings.HasPrefix(name, "$") {
				vc.needRootref()
				vc.axiom(fmt.Sprintf("(forall ((r Int)) (! (=> (< (rootref r) %s) (= (select %s r) (select %s r))) :pattern ((select %s r))))", st.ep.bound, n, old, n))
				if vc.d.refHeap[name] && false {
					// well-formedness: references stored before the call point to objects allocated before the call
					vc.axiom(fmt.Sprintf("(forall ((r Int)) (! (< (rootref (select %s r)) %s) :pattern ((select %s r))))", old, st.ep.bound, old))
				}
			} else {
				vc.axiom(fmt.Sprintf("(= %s %s)", n, old))
			}
		case "merge":
			var terms []string
			for _, p := range st.ep.sts {
				terms = append(terms, vc.stGet(p, name))
			}
			t := terms[len(terms)-1]
			for j := len(terms) - 2; j >= 0; j-- {
				t = ite(st.ep.conds[j], terms[j], t)
			}
			vc.axiom(fmt.Sprintf("(= %s %s)", n, t))
		}
	}
	return n
}

func (vc *VC) needRootref() {}

// allocHavoc: a callee with a frame may have allocated and initialised new objects: every heap component is
// unchanged on objects that existed before the call and unknown on newer ones. Components in keep are left alone
// (they were havocked explicitly according to the modifies clause).
func (vc *VC) allocHavoc(st *State) {
	parent := st.clone()
	bound := vc.stGet0(st, "$alloc")
	vc.nepoch++
	st.epoch = vc.nepoch
	st.ep = &epochInfo{kind: "alloc", parent: parent, bound: bound}
	var keys []string
	for k := range st.m {
		keys = append(keys, k)
	}
	sort.Strings(keys)
	for _, k := range keys {
		srt := vc.sortOfState(k)
		if strings.HasPrefix(k, "$") || !strings.HasPrefix(srt, "(Array Int ") {
			continue
		}
		delete(st.m, k) // re-materialised lazily through the alloc epoch (frame axiom against parent)
	}
	na := vc.freshName("$alloc", "Int")
	st.m["$alloc"] = na
	vc.axiom(fmt.Sprintf("(>= %s %s)", na, bound))
}

func (vc *VC) stSet(st *State, name, term string) {
	srt := vc.d.heapSort[name]
	st.m[name] = vc.define(name, srt, term)
}

func (vc *VC) havocAll(st *State) {
	alloc := vc.stGet0(st, "$alloc")
	vc.nepoch++
	st.epoch = vc.nepoch
	st.ep = nil
	for k := range st.m {
		if strings.HasPrefix(k, "$g.") || strings.HasPrefix(k, "$l.") || vc.immutable[k] { // ghost variables, private locals and immutable fields survive
			continue
		}
		delete(st.m, k)
	}
	na := vc.fresh("$alloc", "Int")
	st.m["$alloc"] = na
	vc.axiom(fmt.Sprintf("(>= %s %s)", na, alloc))
}

// havocAllKeeping: havoc of the whole heap by unknown code, except that arrays of the given element heaps which this
// invocation allocated itself and never handed to anybody keep their content (nobody else can reach them).
func (vc *VC) havocAllKeeping(st *State, keep map[string]bool) {
	if len(keep) == 0 {
		vc.havocAll(st)
		return
	}
	parent := st.clone()
	vc.havocAll(st)
	st.ep = &epochInfo{kind: "keepfresh", parent: parent, keep: keep}
}

func (vc *VC) stGet0(st *State, name string) string {
	if t, ok := st.m[name]; ok {
		return t
	}
	return vc.stGet(st, name)
}

func and(xs ...string) string {
	var ys []string
	for _, x := range xs {
		if x == "true" || x == "" {
			continue
		}
		if x == "false" {
			return "false"
		}
		ys = append(ys, x)
	}
	switch len(ys) {
	case 0:
		return "true"
	case 1:
		return ys[0]
	}
	return "(and " + strings.Join(ys, " ") + ")"
}

func or(xs ...string) string {
	var ys []string
	for _, x := range xs {
		if x == "false" || x == "" {
			continue
		}
		if x == "true" {
			return "true"
		}
		ys = append(ys, x)
	}
	switch len(ys) {
	case 0:
		return "false"
	case 1:
		return ys[0]
	}
	return "(or " + strings.Join(ys, " ") + ")"
}

func not(x string) string {
	switch x {
	case "true":
		return "false"
	case "false":
		return "true"
	}
	return "(not " + x + ")"
}

func implies(a, b string) string {
	if a == "true" {
		return b
	}
	return "(=> " + a + " " + b + ")"
}

func ite(c, a, b string) string {
	if a == b {
		return a
	}
	if c == "true" {
		return a
	}
	if c == "false" {
		return b
	}
	return "(ite " + c + " " + a + " " + b + ")"
}

// ---------------------------------------------------------------------------
// Locations

type pathElem struct {
	field   int // >=0: struct field of structT
	structT types.Type
	index   string     // array index term (field == -1)
	elemT   types.Type // type of the selected component
}

type Loc struct {
	heap string
	idx  string
	path []pathElem
	ty   types.Type // type of the cell addressed
	// struct addressed through a base ref (fields live in field heaps)
	structRef string
	structT   types.Type
	opaque    bool
	local     string // private (non-escaping) local: state component holding the value itself
}

func (vc *VC) locRoot(st *State, l *Loc) string {
	if l.local != "" {
		return vc.stGet(st, l.local)
	}
	return fmt.Sprintf("(select %s %s)", vc.stGet(st, l.heap), l.idx)
}

func (vc *VC) loadLoc(st *State, l *Loc) string {
	if l.opaque {
		vc.note("load through unmodelled pointer")
		return vc.fresh("opq", vc.d.sortOf(l.ty))
	}
	if l.structRef != "" {
		return vc.loadStruct(st, l.structRef, l.structT)
	}
	t := vc.locRoot(st, l)
	for _, p := range l.path {
		if p.field >= 0 {
			vc.d.sortOf(p.structT)
			t = fmt.Sprintf("(%s %s)", vc.d.fieldSel(p.structT, p.field), t)
		} else {
			t = fmt.Sprintf("(select %s %s)", t, p.index)
		}
	}
	return t
}

func (vc *VC) loadStruct(st *State, ref string, t types.Type) string {
	s, _ := isStructT(t)
	vc.d.sortOf(t)
	if s.NumFields() == 0 {
		return vc.d.structCtor(t)
	}
	var fs []string
	for i := 0; i < s.NumFields(); i++ {
		ft := s.Field(i).Type()
		if _, ok := isStructT(ft); ok {
			fs = append(fs, vc.loadStruct(st, fmt.Sprintf("(%s %s)", vc.d.subRef(t, i), ref), ft))
		} else {
			fs = append(fs, fmt.Sprintf("(select %s %s)", vc.stGet(st, vc.d.fieldHeap(t, i)), ref))
		}
	}
	return "(" + vc.d.structCtor(t) + " " + strings.Join(fs, " ") + ")"
}

func (vc *VC) storeStruct(st *State, ref string, t types.Type, val string) {
	s, _ := isStructT(t)
	vc.d.sortOf(t)
	val = vc.define("sv", vc.d.sortOf(t), val)
	for i := 0; i < s.NumFields(); i++ {
		ft := s.Field(i).Type()
		fv := fmt.Sprintf("(%s %s)", vc.d.fieldSel(t, i), val)
		if _, ok := isStructT(ft); ok {
			vc.storeStruct(st, fmt.Sprintf("(%s %s)", vc.d.subRef(t, i), ref), ft, fv)
		} else {
			h := vc.d.fieldHeap(t, i)
			vc.stSet(st, h, fmt.Sprintf("(store %s %s %s)", vc.stGet(st, h), ref, fv))
		}
	}
}

func (vc *VC) storeLoc(st *State, l *Loc, val string) {
	if l.opaque {
		vc.note("store through unmodelled pointer (havoc all)")
		vc.havocAll(st)
		return
	}
	if l.structRef != "" {
		vc.storeStruct(st, l.structRef, l.structT, val)
		return
	}
	if l.local != "" {
		vc.stSet(st, l.local, vc.updatePath(vc.stGet(st, l.local), l.path, val))
		return
	}
	cur := vc.stGet(st, l.heap)
	root := fmt.Sprintf("(select %s %s)", cur, l.idx)
	nv := vc.updatePath(root, l.path, val)
	vc.stSet(st, l.heap, fmt.Sprintf("(store %s %s %s)", cur, l.idx, nv))
}

func (vc *VC) updatePath(cur string, path []pathElem, val string) string {
	if len(path) == 0 {
		return val
	}
	p := path[0]
	if p.field >= 0 {
		s, _ := isStructT(p.structT)
		var fs []string
		for i := 0; i < s.NumFields(); i++ {
			sel := fmt.Sprintf("(%s %s)", vc.d.fieldSel(p.structT, i), cur)
			if i == p.field {
				fs = append(fs, vc.updatePath(sel, path[1:], val))
			} else {
				fs = append(fs, sel)
			}
		}
		return "(" + vc.d.structCtor(p.structT) + " " + strings.Join(fs, " ") + ")"
	}
	inner := fmt.Sprintf("(select %s %s)", cur, p.index)
	return fmt.Sprintf("(store %s %s %s)", cur, p.index, vc.updatePath(inner, path[1:], val))
}

// locOfPtr: location addressed by a pointer *value* (term ref) of pointer type pt.
func (vc *VC) locOfPtr(ref string, pt types.Type) *Loc {
	elem := pt.Underlying().(*types.Pointer).Elem()
	if _, ok := isStructT(elem); ok {
		return &Loc{structRef: ref, structT: elem, ty: elem}
	}
	if arr, ok := elem.Underlying().(*types.Array); ok {
		// arrays live in slice heaps: whole-array cell
		_ = arr
		return &Loc{heap: vc.d.sliceHeap(arr.Elem()), idx: ref, ty: elem}
	}
	return &Loc{heap: vc.d.cellHeap(elem), idx: ref, ty: elem}
}

// fieldLoc: location of field i of the struct addressed by base.
func (vc *VC) fieldLoc(base *Loc, i int) *Loc {
	if base.opaque {
		s, _ := isStructT(base.ty)
		return &Loc{opaque: true, ty: s.Field(i).Type()}
	}
	if base.structRef != "" {
		s, _ := isStructT(base.structT)
		ft := s.Field(i).Type()
		if _, ok := isStructT(ft); ok {
			return &Loc{structRef: fmt.Sprintf("(%s %s)", vc.d.subRef(base.structT, i), base.structRef), structT: ft, ty: ft}
		}
		return &Loc{heap: vc.d.fieldHeap(base.structT, i), idx: base.structRef, ty: ft}
	}
	// struct value stored inside a cell (slice element, map value, array element)
	s, _ := isStructT(base.ty)
	ft := s.Field(i).Type()
	np := append(append([]pathElem{}, base.path...), pathElem{field: i, structT: base.ty, elemT: ft})
	return &Loc{heap: base.heap, idx: base.idx, local: base.local, path: np, ty: ft}
}

// ---------------------------------------------------------------------------
// Frames

type deferRec struct {
	call *ssa.Defer
	cond string
	args []string
	recv []string
}

type retPoint struct {
	pc   string
	st   *State
	vals [][]string
	pos  string
}

type Frame struct {
	vc            *VC
	fn            *ssa.Function
	prefix        string
	vals          map[ssa.Value][]string
	locs          map[ssa.Value]*Loc
	closures      map[ssa.Value]*ssa.MakeClosure
	c             *FuncContract
	top           bool
	defers        []*deferRec
	rets          []retPoint
	entry         *State
	parent        *Frame
	freeVals      map[*ssa.FreeVar][]string
	freeLocs      map[*ssa.FreeVar]*Loc
	freeClos      map[*ssa.FreeVar]*ssa.MakeClosure
	loops         []*loopInfo
	loopOf        map[*ssa.BasicBlock]*loopInfo // header -> loop
	blockPC       map[*ssa.BasicBlock]string
	blockSt       map[*ssa.BasicBlock]*State
	edgePC        map[[2]int]string
	alias         map[string]string                 // current local name -> name it had when the lock was written (renamed since)
	extracted     bool                              // frame of a function that did not exist when the lock was written (code moved out of the function under verification): treated as part of its caller's text
	paramOrigin   map[*ssa.Parameter]*ssa.Parameter // extracted frame: parameter -> the caller's parameter passed for it
	inlineAt      ssa.Instruction                   // set around the inlining of an extracted function: the call instruction
	callSite      ssa.Instruction                   // the call instruction in the parent frame this frame was inlined at
	loopBase      int                               // loop ordinals of this frame start after loopBase
	siteBase      map[ssa.Instruction]int
	inlinedHelper bool                 // frame of a repository helper executed symbolically inside the function under verification
	applyMC       *ssa.MakeClosure     // closure value whose contract is being applied at the current call site
	iterVis       map[ssa.Value]string // range-over-map iterator -> state key of visited set
	iterMap       map[ssa.Value]ssa.Value
	callOrd       map[string]int
	specEnv       *SpecEnv
	args          [][]string
	privAlloc     map[*ssa.Alloc]bool
	initGlobals   []*ssa.Global
	lookupIn      *lookupInfo
	closureCell   map[*ssa.Alloc]*ssa.MakeClosure
	privHeaps     map[string]bool // slice-element heaps whose arrays allocated here never escape (type-based)
}

type loopInfo struct {
	header   *ssa.BasicBlock
	blocks   map[*ssa.BasicBlock]bool
	ordinal  int
	spec     *LoopSpec
	backFrom []*ssa.BasicBlock
	entrySt  *State // state at loop head after havoc (for decreases etc.)
	decr0    string
	phis     []*ssa.Phi
	havocked []string
}

func (vc *VC) newFrame(fn *ssa.Function, parent *Frame) *Frame {
	vc.frames++
	fr := &Frame{vc: vc, fn: fn, prefix: fmt.Sprintf("f%d.", vc.frames-1), vals: map[ssa.Value][]string{}, locs: map[ssa.Value]*Loc{},
		closures: map[ssa.Value]*ssa.MakeClosure{}, parent: parent, freeVals: map[*ssa.FreeVar][]string{}, freeLocs: map[*ssa.FreeVar]*Loc{}, freeClos: map[*ssa.FreeVar]*ssa.MakeClosure{},
		loopOf: map[*ssa.BasicBlock]*loopInfo{}, blockPC: map[*ssa.BasicBlock]string{}, blockSt: map[*ssa.BasicBlock]*State{}, edgePC: map[[2]int]string{},
		iterVis: map[ssa.Value]string{}, iterMap: map[ssa.Value]ssa.Value{}, callOrd: map[string]int{}, privAlloc: map[*ssa.Alloc]bool{}}
	return fr
}

func (fr *Frame) valName(v ssa.Value) string { return sym(fr.prefix + v.Name()) }

// val returns the term(s) for an SSA value.
func (fr *Frame) val(v ssa.Value) []string {
	if t, ok := fr.vals[v]; ok {
		return t
	}
	vc := fr.vc
	switch x := v.(type) {
	case *ssa.Const:
		return []string{vc.constTerm(x)}
	case *ssa.Function:
		return []string{vc.funcRef(x)}
	case *ssa.Global:
		return []string{vc.globalRef(x)}
	case *ssa.FreeVar:
		if t, ok := fr.freeVals[x]; ok {
			return t
		}
		t := []string{vc.fresh(fr.prefix+"fv."+x.Name(), vc.d.sortOf(x.Type()))}
		fr.freeVals[x] = t
		return t
	case *ssa.Builtin:
		return []string{"0"}
	}
	// undefined yet (e.g. value from a block not processed: unreachable or back-edge use)
	var ts []string
	if tup, ok := v.Type().(*types.Tuple); ok {
		for i := 0; i < tup.Len(); i++ {
			ts = append(ts, vc.fresh(fr.prefix+v.Name(), vc.d.sortOf(tup.At(i).Type())))
		}
	} else {
		ts = []string{vc.fresh(fr.prefix+v.Name(), vc.d.sortOf(v.Type()))}
	}
	fr.vals[v] = ts
	return ts
}

func (fr *Frame) v1(v ssa.Value) string { return fr.val(v)[0] }

func (vc *VC) funcRef(f *ssa.Function) string {
	n := sym("FN." + f.String())
	if !vc.cdecl[n] {
		vc.cdecl[n] = true
		k := len(vc.g.fnIDs) + 1
		if id, ok := vc.g.fnIDs[f.String()]; ok {
			k = id
		} else {
			vc.g.fnIDs[f.String()] = k
		}
		vc.consts = append(vc.consts, fmt.Sprintf("(define-fun %s () Int (- %d))", n, 1000+k))
	}
	return n
}

func (vc *VC) globalRef(g *ssa.Global) string {
	n := sym("G." + g.String())
	if !vc.cdecl[n] {
		vc.cdecl[n] = true
		k := len(vc.g.globIDs) + 1
		if id, ok := vc.g.globIDs[g.String()]; ok {
			k = id
		} else {
			vc.g.globIDs[g.String()] = k
		}
		vc.consts = append(vc.consts, fmt.Sprintf("(define-fun %s () Int (- %d))", n, 500000+k))
	}
	return n
}

func intTerm(s string) string {
	if strings.HasPrefix(s, "-") {
		return "(- " + s[1:] + ")"
	}
	return s
}

func (vc *VC) constTerm(c *ssa.Const) string {
	t := c.Type()
	if c.Value == nil {
		return vc.d.zero(t)
	}
	switch u := t.Underlying().(type) {
	case *types.Basic:
		switch {
		case u.Info()&types.IsBoolean != 0:
			return fmt.Sprint(constant.BoolVal(c.Value))
		case u.Info()&types.IsInteger != 0:
			return intTerm(c.Value.ExactString())
		case u.Info()&types.IsString != 0:
			return vc.d.strLit(constant.StringVal(c.Value))
		case u.Info()&types.IsFloat != 0:
			f, _ := constant.Float64Val(c.Value)
			s := fmt.Sprintf("%f", f)
			if strings.HasPrefix(s, "-") {
				return "(- " + s[1:] + ")"
			}
			return s
		}
	}
	return vc.d.zero(t)
}

// assumeType returns well-formedness assumptions for a fresh value of type t.
func (vc *VC) typeAssume(term string, t types.Type, st *State) string {
	switch u := t.Underlying().(type) {
	case *types.Basic:
		if u.Info()&types.IsInteger != 0 {
			if lo, hi, ok := intRange(t); ok {
				if isUnsigned(t) || u.Kind() == types.Int8 || u.Kind() == types.Int16 || u.Kind() == types.Int32 || vc.g.int64Ranges {
					return fmt.Sprintf("(and (<= %s %s) (<= %s %s))", lo, term, term, hi)
				}
			}
		}
	case *types.Slice:
		wf := fmt.Sprintf("(and (>= (s.len %s) 0) (>= (s.cap %s) (s.len %s)) (<= (s.cap %s) 9223372036854775807) (>= (s.off %s) 0) (=> (= (s.arr %s) 0) (= (s.cap %s) 0)))", term, term, term, term, term, term, term)
		if st != nil {
			wf = and(wf, fmt.Sprintf("(< (rootref (s.arr %s)) %s)", term, vc.stGet0(st, "$alloc")))
		}
		return wf
	case *types.Pointer, *types.Map, *types.Chan, *types.Signature:
		// well-formedness: every reference in the program state points to an object allocated so far
		if st != nil {
			return fmt.Sprintf("(< (rootref %s) %s)", term, vc.stGet0(st, "$alloc"))
		}
	case *types.Interface:
		if st != nil {
			return fmt.Sprintf("(< (rootref (i.val %s)) %s)", term, vc.stGet0(st, "$alloc"))
		}
	}
	return "true"
}

// ---------------------------------------------------------------------------
// Loops

func findLoops(fn *ssa.Function) ([]*loopInfo, error) {
	var loops []*loopInfo
	byHeader := map[*ssa.BasicBlock]*loopInfo{}
	for _, b := range fn.Blocks {
		for _, s := range b.Succs {
			if s.Dominates(b) { // back edge b -> s
				li := byHeader[s]
				if li == nil {
					li = &loopInfo{header: s, blocks: map[*ssa.BasicBlock]bool{s: true}}
					byHeader[s] = li
					loops = append(loops, li)
				}
				li.backFrom = append(li.backFrom, b)
				// natural loop body: nodes reaching b without going through s
				stack := []*ssa.BasicBlock{b}
				for len(stack) > 0 {
					n := stack[len(stack)-1]
					stack = stack[:len(stack)-1]
					if li.blocks[n] {
						continue
					}
					li.blocks[n] = true
					for _, p := range n.Preds {
						stack = append(stack, p)
					}
				}
			}
		}
	}
	sort.Slice(loops, func(i, j int) bool { return loops[i].header.Index < loops[j].header.Index })
	for i, l := range loops {
		l.ordinal = i + 1
		for _, ins := range l.header.Instrs {
			if p, ok := ins.(*ssa.Phi); ok {
				l.phis = append(l.phis, p)
			}
		}
	}
	// reducibility check: every retreating edge in a DFS must be a back edge to a dominator
	state := map[*ssa.BasicBlock]int{}
	var irreducible bool
	var dfs func(b *ssa.BasicBlock)
	dfs = func(b *ssa.BasicBlock) {
		state[b] = 1
		for _, s := range b.Succs {
			if state[s] == 1 && !s.Dominates(b) {
				irreducible = true
			}
			if state[s] == 0 {
				dfs(s)
			}
		}
		state[b] = 2
	}
	if len(fn.Blocks) > 0 {
		dfs(fn.Blocks[0])
	}
	if irreducible {
		return nil, fmt.Errorf("irreducible control flow in %s", fn.String())
	}
	return loops, nil
}

// loopCount: loops of fn plus those of the extracted functions it calls (they count as loops of the caller's text).
func (g *Gen) loopCount(fn *ssa.Function, depth int) int {
	loops, err := findLoops(fn)
	if err != nil || depth > 6 {
		return 0
	}
	n := len(loops)
	for _, b := range fn.Blocks {
		for _, ins := range b.Instrs {
			if ci, ok := ins.(ssa.CallInstruction); ok {
				if callee := ci.Common().StaticCallee(); callee != nil && callee != fn && g.extractedFn(callee) {
					n += g.loopCount(callee, depth+1)
				}
			}
		}
	}
	return n
}

func loopMinPos(l *loopInfo) token.Pos {
	var m token.Pos
	for b := range l.blocks {
		for _, ins := range b.Instrs {
			switch ins.(type) {
			case *ssa.DebugRef, *ssa.Phi:
				continue // a phi carries the position of the variable's declaration, not of the loop
			}
			if p := ins.Pos(); p.IsValid() && (!m.IsValid() || p < m) {
				m = p
			}
		}
	}
	return m
}

// numberLoops gives the loops of this frame their ordinals. A loop that was moved, as it is, into a new function keeps the
// ordinal it had in the function under verification: the loops of an extracted function are numbered at its call site, in
// source order among the caller's own loops. Without extracted functions the ordinals are 1..n in header order.
func (fr *Frame) numberLoops(loops []*loopInfo) {
	type site struct {
		ins ssa.Instruction
		pos token.Pos
		n   int
	}
	var sites []site
	if fr.top || fr.extracted {
		for _, b := range fr.fn.Blocks {
			for _, ins := range b.Instrs {
				if ci, ok := ins.(ssa.CallInstruction); ok {
					if callee := ci.Common().StaticCallee(); callee != nil && callee != fr.fn && fr.vc.g.extractedFn(callee) {
						if n := fr.vc.g.loopCount(callee, 1); n > 0 {
							sites = append(sites, site{ins, ins.Pos(), n})
						}
					}
				}
			}
		}
	}
	minPos := make([]token.Pos, len(loops))
	for i, l := range loops {
		minPos[i] = loopMinPos(l)
	}
	for i, l := range loops {
		l.ordinal = fr.loopBase + i + 1
		for _, s := range sites {
			if s.pos < minPos[i] {
				l.ordinal += s.n
			}
		}
	}
	fr.siteBase = map[ssa.Instruction]int{}
	for _, s := range sites {
		base := fr.loopBase
		for i := range loops {
			if minPos[i] <= s.pos {
				base++
			}
		}
		for _, o := range sites {
			if o.pos < s.pos {
				base += o.n
			}
		}
		fr.siteBase[s.ins] = base
	}
}

func topoOrder(fn *ssa.Function) []*ssa.BasicBlock {
	var order []*ssa.BasicBlock
	seen := map[*ssa.BasicBlock]bool{}
	var dfs func(b *ssa.BasicBlock)
	dfs = func(b *ssa.BasicBlock) {
		seen[b] = true
		for _, s := range b.Succs {
			if s.Dominates(b) {
				continue // back edge
			}
			if !seen[s] {
				dfs(s)
			}
		}
		order = append(order, b)
	}
	dfs(fn.Blocks[0])
	for i, j := 0, len(order)-1; i < j; i, j = i+1, j-1 {
		order[i], order[j] = order[j], order[i]
	}
	return order
}

// stateKeysModified: conservative syntactic scan of the loop for state components written.
// Returns (names, havocAll).
func (fr *Frame) loopWrites(li *loopInfo) (map[string]bool, bool) {
	names := map[string]bool{}
	all := false
	vc := fr.vc
	for b := range li.blocks {
		for _, ins := range b.Instrs {
			switch x := ins.(type) {
			case *ssa.Store:
				names["$store"] = true
				_ = x
			case *ssa.MapUpdate:
				names["$store"] = true
			case *ssa.Alloc, *ssa.MakeSlice, *ssa.MakeMap, *ssa.MakeClosure, *ssa.MakeChan:
				names["$alloc"] = true
			case *ssa.Next:
				names["$iter"] = true
			case ssa.CallInstruction:
				eff := fr.callEffect(x)
				if eff.all {
					all = true
				}
				for n := range eff.names {
					names[n] = true
				}
				names["$alloc"] = true
			case *ssa.Select:
				all = true
			case *ssa.UnOp:
				if x.Op == token.ARROW && !vc.g.recvNoHavoc(fr) {
					all = true
				}
			}
		}
	}
	return names, all
}

// ---------------------------------------------------------------------------
// Function execution

// run executes the function body symbolically; returns merged return point.
func (fr *Frame) run(pc string, st *State) (string, *State, [][]string) {
	vc := fr.vc
	fn := fr.fn
	if len(fn.Blocks) == 0 {
		vc.note("function without body: %s", fn.String())
		vc.havocAll(st)
		return pc, st, nil
	}
	loops, err := findLoops(fn)
	if err != nil {
		vc.failed = err
		return "false", st, nil
	}
	fr.loops = loops
	fr.numberLoops(loops)
	for _, l := range loops {
		fr.loopOf[l.header] = l
		if fr.c != nil && fr.top {
			l.spec = fr.c.Loops[l.ordinal]
		} else if fr.extracted {
			if top := fr.topFrame(); top.c != nil && top.top {
				l.spec = top.c.Loops[l.ordinal]
			}
		}
	}
	fr.entry = st.clone()
	// private allocs: address never escapes
	for _, b := range fn.Blocks {
		for _, ins := range b.Instrs {
			if a, ok := ins.(*ssa.Alloc); ok && !allocEscapes(a) {
				fr.privAlloc[a] = true
			}
		}
	}
	if fr.top {
		fr.privHeaps = fr.privateSliceHeaps()
	}
	order := topoOrder(fn)
	for _, b := range order {
		fr.execBlock(b, pc, st)
		if vc.failed != nil {
			return "false", st, nil
		}
	}
	return fr.mergeReturns()
}

func allocEscapes(a *ssa.Alloc) bool {
	var esc func(v ssa.Value, depth int) bool
	esc = func(v ssa.Value, depth int) bool {
		refs := v.Referrers()
		if refs == nil {
			return true
		}
		for _, r := range *refs {
			switch x := r.(type) {
			case *ssa.Store:
				if x.Val == v {
					return true
				}
			case *ssa.UnOp:
				if x.Op != token.MUL {
					return true
				}
			case *ssa.FieldAddr:
				if esc(x, depth+1) {
					return true
				}
			case *ssa.IndexAddr:
				if esc(x, depth+1) {
					return true
				}
			case *ssa.DebugRef:
			default:
				return true
			}
		}
		return false
	}
	return esc(a, 0)
}

func (fr *Frame) mergeReturns() (string, *State, [][]string) {
	vc := fr.vc
	if len(fr.rets) == 0 {
		return "false", fr.entry.clone(), nil
	}
	if len(fr.rets) == 1 {
		r := fr.rets[0]
		return r.pc, r.st, r.vals
	}
	var pcs []string
	for _, r := range fr.rets {
		pcs = append(pcs, r.pc)
	}
	pc := vc.define(fr.prefix+"retpc", "Bool", or(pcs...))
	st := fr.rets[len(fr.rets)-1].st.clone()
	var conds []string
	var sts []*State
	for _, r := range fr.rets {
		conds = append(conds, r.pc)
		sts = append(sts, r.st)
	}
	st = vc.mergeStates(conds, sts)
	// results
	nres := len(fr.rets[0].vals)
	res := make([][]string, nres)
	sig := fr.fn.Signature.Results()
	for i := 0; i < nres; i++ {
		t := fr.rets[len(fr.rets)-1].vals[i][0]
		for j := len(fr.rets) - 2; j >= 0; j-- {
			t = ite(fr.rets[j].pc, fr.rets[j].vals[i][0], t)
		}
		res[i] = []string{vc.define(fr.prefix+"ret", vc.d.sortOf(sig.At(i).Type()), t)}
	}
	return pc, st, res
}

// mergeStates: conds[i] selects sts[i] (mutually exclusive); last one is the default.
func (vc *VC) mergeStates(conds []string, sts []*State) *State {
	if len(sts) == 1 {
		return sts[0].clone()
	}
	sameEpoch := true
	for _, s := range sts[1:] {
		if s.epoch != sts[0].epoch {
			sameEpoch = false
		}
	}
	out := &State{m: map[string]string{}, epoch: sts[0].epoch, ep: sts[0].ep}
	keys := map[string]bool{}
	for _, s := range sts {
		for k := range s.m {
			keys[k] = true
		}
	}
	if !sameEpoch {
		// components not materialised yet are resolved lazily as the ite of the predecessors' versions
		vc.nepoch++
		out.epoch = vc.nepoch
		var cs []*State
		for _, s := range sts {
			cs = append(cs, s.clone())
		}
		out.ep = &epochInfo{kind: "merge", conds: append([]string{}, conds...), sts: cs}
	}
	var ks []string
	for k := range keys {
		ks = append(ks, k)
	}
	sort.Strings(ks)
	for _, k := range ks {
		var terms []string
		for _, s := range sts {
			terms = append(terms, vc.stGet0(s, k))
		}
		t := terms[len(terms)-1]
		for j := len(terms) - 2; j >= 0; j-- {
			t = ite(conds[j], terms[j], t)
		}
		allSame := true
		for _, x := range terms {
			if x != terms[0] {
				allSame = false
			}
		}
		if allSame {
			out.m[k] = terms[0]
		} else {
			out.m[k] = vc.define(k, vc.sortOfState(k), t)
		}
	}
	return out
}

func (vc *VC) sortOfState(k string) string {
	if s, ok := vc.d.heapSort[k]; ok {
		return s
	}
	panic("no sort for state component " + k)
}

func (fr *Frame) edgeCond(from, to *ssa.BasicBlock) string {
	return fr.edgePC[[2]int{from.Index, to.Index}]
}

func (fr *Frame) execBlock(b *ssa.BasicBlock, entryPC string, entrySt *State) {
	vc := fr.vc
	var pc string
	var st *State
	li := fr.loopOf[b]
	if b.Index == 0 {
		pc, st = entryPC, entrySt
	} else {
		var conds []string
		var sts []*State
		var preds []*ssa.BasicBlock
		for _, p := range b.Preds {
			if li != nil && li.blocks[p] && b.Dominates(p) {
				continue // back edge
			}
			ec, ok := fr.edgePC[[2]int{p.Index, b.Index}]
			if !ok {
				continue // predecessor unreachable / not processed
			}
			conds = append(conds, ec)
			sts = append(sts, fr.blockSt[p])
			preds = append(preds, p)
		}
		if len(conds) == 0 {
			fr.blockPC[b] = "false"
			fr.blockSt[b] = entrySt.clone()
			// mark outgoing edges false
			for _, s := range b.Succs {
				fr.edgePC[[2]int{b.Index, s.Index}] = "false"
			}
			return
		}
		pc = vc.define(fmt.Sprintf("%spc%d", fr.prefix, b.Index), "Bool", or(conds...))
		st = vc.mergeStates(conds, sts)
		// phis
		for _, ins := range b.Instrs {
			phi, ok := ins.(*ssa.Phi)
			if !ok {
				break
			}
			var t string
			first := true
			for k := len(preds) - 1; k >= 0; k-- {
				// find edge index of preds[k] in b.Preds
				var ev string
				for pi, p := range b.Preds {
					if p == preds[k] {
						ev = fr.v1(phi.Edges[pi])
						break
					}
				}
				if first {
					t = ev
					first = false
				} else {
					t = ite(conds[k], ev, t)
				}
			}
			if li != nil {
				// loop header: remember entry value, define later
				fr.vals[phi] = []string{t}
			} else {
				fr.vals[phi] = []string{vc.define(fr.prefix+phi.Name(), vc.d.sortOf(phi.Type()), t)}
				// propagate closure identity through trivial phis
			}
		}
	}
	if li != nil {
		pc, st = fr.enterLoop(li, pc, st)
	}
	fr.blockPC[b] = pc
	// instructions
	for _, ins := range b.Instrs {
		if _, ok := ins.(*ssa.Phi); ok {
			continue
		}
		pc = fr.execInstr(ins, pc, st)
		if vc.failed != nil {
			return
		}
	}
	fr.blockSt[b] = st
	// terminator
	last := b.Instrs[len(b.Instrs)-1]
	switch x := last.(type) {
	case *ssa.If:
		c := fr.v1(x.Cond)
		fr.setEdge(b, b.Succs[0], and(pc, c), st)
		fr.setEdge(b, b.Succs[1], and(pc, not(c)), st)
	case *ssa.Jump:
		fr.setEdge(b, b.Succs[0], pc, st)
	}
}

func (fr *Frame) setEdge(from, to *ssa.BasicBlock, cond string, st *State) {
	vc := fr.vc
	cond = vc.define(fmt.Sprintf("%se%d_%d", fr.prefix, from.Index, to.Index), "Bool", cond)
	if to.Dominates(from) {
		if li := fr.loopOf[to]; li != nil && li.blocks[from] {
			fr.backEdge(li, from, cond, st)
			return
		}
	}
	fr.edgePC[[2]int{from.Index, to.Index}] = cond
}

// enterLoop: assert invariant on entry, havoc, assume invariant.
func (fr *Frame) enterLoop(li *loopInfo, pc string, st *State) (string, *State) {
	vc := fr.vc
	spec := li.spec
	// 1. invariant on entry (phis currently hold entry values)
	if spec != nil {
		env := fr.loopEnv(li, st)
		for _, inv := range spec.Invariants {
			t, err := env.boolExpr(inv.E)
			if err != nil {
				vc.failed = fmt.Errorf("%s loop %d invariant %s: %v", vc.name, li.ordinal, inv.Name, err)
				return pc, st
			}
			vc.addObl(&Obligation{Name: fmt.Sprintf("loop%d:init:%s", li.ordinal, inv.Name), Kind: "loop-init", PC: pc, Goal: t, Src: inv.Src})
		}
	}
	// 2. havoc
	preSt := st
	st = st.clone()
	names, all := fr.loopWrites(li)
	if all {
		fr.havocInterference(st)
		// havocInterference keeps what no OTHER code can write (private arrays and maps of this invocation); what the
		// loop body itself writes has changed in earlier iterations all the same
		for _, h := range fr.loopStoreHeaps(li) {
			if h == "*" || strings.HasPrefix(h, "$l.") {
				continue
			}
			st.m[h] = vc.fresh(h, vc.sortOfState(h))
			li.havocked = append(li.havocked, h)
		}
	} else {
		if names["$store"] {
			// havoc every heap component written in the loop: determined lazily is unsound, so havoc all known heaps
			// except those provably untouched: we re-scan with location resolution at a coarse level.
			for _, h := range fr.loopStoreHeaps(li) {
				if h == "*" {
					vc.havocAll(st)
					break
				}
				st.m[h] = vc.fresh(h, vc.sortOfState(h))
				li.havocked = append(li.havocked, h)
			}
		}
		for n := range names {
			if strings.HasPrefix(n, "$") && n != "$alloc" {
				continue
			}
			if n == "$alloc" {
				old := vc.stGet0(st, "$alloc")
				na := vc.fresh("$alloc", "Int")
				st.m["$alloc"] = na
				pc = and(pc, fmt.Sprintf("(>= %s %s)", na, old))
				continue
			}
			st.m[n] = vc.fresh(n, vc.sortOfState(n))
			li.havocked = append(li.havocked, n)
		}
	}
	// ghost vars assigned by site clauses inside the loop (they survive heap havoc, so they are havocked explicitly)
	for _, g := range fr.loopGhostWrites(li) {
		st.m[g] = vc.fresh(g, vc.sortOfState(g))
	}
	// private locals written in the loop
	for _, h := range fr.loopStoreHeaps(li) {
		if strings.HasPrefix(h, "$l.") {
			st.m[h] = vc.fresh(h, vc.sortOfState(h))
		}
	}
	// map iterators advanced in the loop
	for it, key := range fr.iterVis {
		if rng, ok := it.(*ssa.Range); ok && li.blocks[rng.Block()] {
			continue // iterator created inside the loop: initialised there
		}
		advanced := false
		for b := range li.blocks {
			for _, ins := range b.Instrs {
				if nx, ok := ins.(*ssa.Next); ok && nx.Iter == it {
					advanced = true
				}
			}
		}
		if advanced {
			st.m[key] = vc.fresh(key, vc.sortOfState(key))
		}
	}
	for _, phi := range li.phis {
		var n string
		if vc.d.sortOf(phi.Type()) == "Slice" && offZero(phi, map[ssa.Value]bool{}) {
			// every value flowing into this slice variable has offset 0 (make/append/full reslice): keep that syntactically
			b := vc.fresh(fr.prefix+phi.Name(), "Int")
			vc.declare(b+".len", "Int")
			vc.declare(b+".cap", "Int")
			n = fmt.Sprintf("(mk-slice %s 0 %s %s)", b, b+".len", b+".cap")
		} else {
			n = vc.fresh(fr.prefix+phi.Name(), vc.d.sortOf(phi.Type()))
		}
		fr.vals[phi] = []string{n}
		pc = and(pc, vc.typeAssume(n, phi.Type(), st))
	}
	// implicit frame invariant: the function's modifies clause holds at every loop head
	if (fr.top || fr.extracted) && vc.frameOn {
		for _, h := range li.havocked {
			if g := vc.frameGoal(h, vc.stGet0(preSt, h)); g != "" {
				vc.addObl(&Obligation{Name: fmt.Sprintf("loop%d:init:frame:%s", li.ordinal, h), Kind: "loop-init", PC: pc, Goal: g, Src: "implicit frame invariant for " + h})
			}
			if g := vc.frameGoal(h, st.m[h]); g != "" {
				pc = and(pc, g)
			}
		}
	}
	// 3. assume invariant
	if spec != nil {
		env := fr.loopEnv(li, st)
		var invs []string
		for _, inv := range spec.Invariants {
			t, err := env.assumeExpr(inv.E)
			if err != nil {
				vc.failed = fmt.Errorf("%s loop %d invariant %s: %v", vc.name, li.ordinal, inv.Name, err)
				return pc, st
			}
			invs = append(invs, t)
		}
		pc = and(append([]string{pc}, invs...)...)
		if spec.Decreases != nil {
			t, err := env.expr(spec.Decreases)
			if err != nil {
				vc.failed = fmt.Errorf("%s loop %d decreases: %v", vc.name, li.ordinal, err)
				return pc, st
			}
			li.decr0 = vc.define("decr", "Int", t.t)
		}
	} else if fr.top || fr.extracted {
		vc.note("loop %d of %s has no invariant (havoc only)", li.ordinal, fr.fn.String())
	}
	pc = vc.define(fmt.Sprintf("%slooppc%d", fr.prefix, li.ordinal), "Bool", pc)
	li.entrySt = st.clone()
	return pc, st
}

func (fr *Frame) backEdge(li *loopInfo, from *ssa.BasicBlock, cond string, st *State) {
	vc := fr.vc
	spec := li.spec
	if (fr.top || fr.extracted) && vc.frameOn {
		for _, h := range li.havocked {
			if g := vc.frameGoal(h, vc.stGet0(st, h)); g != "" {
				vc.addObl(&Obligation{Name: fmt.Sprintf("loop%d:preserve:frame:%s@b%d", li.ordinal, h, fr.backOrdinal(li, from)), Kind: "loop-preserve", PC: cond, Goal: g, Src: "implicit frame invariant for " + h})
			}
		}
	}
	if spec == nil {
		return
	}
	// bind phis to the values flowing along this back edge
	saved := map[*ssa.Phi][]string{}
	pi := -1
	for i, p := range li.header.Preds {
		if p == from {
			pi = i
		}
	}
	newVals := map[*ssa.Phi]string{}
	for _, phi := range li.phis {
		newVals[phi] = fr.v1(phi.Edges[pi])
	}
	for _, phi := range li.phis {
		saved[phi] = fr.vals[phi]
		fr.vals[phi] = []string{newVals[phi]}
	}
	env := fr.loopEnv(li, st)
	for _, inv := range spec.Invariants {
		t, err := env.boolExpr(inv.E)
		if err != nil {
			vc.failed = err
			break
		}
		vc.addObl(&Obligation{Name: fmt.Sprintf("loop%d:preserve:%s@b%d", li.ordinal, inv.Name, fr.backOrdinal(li, from)), Kind: "loop-preserve", PC: cond, Goal: t, Src: inv.Src})
	}
	if spec.Decreases != nil {
		t, err := env.expr(spec.Decreases)
		if err == nil {
			vc.addObl(&Obligation{Name: fmt.Sprintf("loop%d:decreases@b%d", li.ordinal, fr.backOrdinal(li, from)), Kind: "loop-decreases", PC: cond,
				Goal: fmt.Sprintf("(and (< %s %s) (>= %s 0))", t.t, li.decr0, li.decr0), Src: "decreases " + spec.Decreases.String()})
		} else {
			vc.failed = err
		}
	}
	for _, phi := range li.phis {
		fr.vals[phi] = saved[phi]
	}
}

func (fr *Frame) backOrdinal(li *loopInfo, from *ssa.BasicBlock) int {
	for i, b := range li.backFrom {
		if b == from {
			return i + 1
		}
	}
	return 0
}

// loopStoreHeaps: which heap components may be written by Store/MapUpdate instructions in the loop.
func (fr *Frame) loopStoreHeaps(li *loopInfo) []string {
	vc := fr.vc
	set := map[string]bool{}
	for b := range li.blocks {
		for _, ins := range b.Instrs {
			switch x := ins.(type) {
			case *ssa.Store:
				for _, h := range fr.heapsOfAddr(x.Addr) {
					set[h] = true
				}
			case *ssa.MapUpdate:
				if mt, ok := x.Map.Type().Underlying().(*types.Map); ok {
					d, v, c := vc.d.mapHeaps(mt)
					set[d], set[v], set[c] = true, true, true
				} else {
					set["*"] = true
				}
			}
		}
	}
	var out []string
	for h := range set {
		out = append(out, h)
	}
	sort.Strings(out)
	return out
}

// heapsOfAddr: heap components a store through addr may touch (type-based).
func (fr *Frame) heapsOfAddr(addr ssa.Value) []string {
	vc := fr.vc
	if pa := fr.rootPriv(addr); pa != nil {
		return []string{fr.privKey(pa)}
	}
	switch a := addr.(type) {
	case *ssa.FieldAddr:
		st := a.X.Type().Underlying().(*types.Pointer).Elem()
		ft := st.Underlying().(*types.Struct).Field(a.Field).Type()
		// if the base itself is a field/index of a value cell, the write lands in that cell's heap
		if root := fr.rootCellHeap(a.X); root != "" {
			return []string{root}
		}
		if _, ok := isStructT(ft); ok {
			return vc.allFieldHeaps(ft)
		}
		return []string{vc.d.fieldHeap(st, a.Field)}
	case *ssa.IndexAddr:
		switch u := a.X.Type().Underlying().(type) {
		case *types.Slice:
			return []string{vc.d.sliceHeap(u.Elem())}
		case *types.Pointer:
			if arr, ok := u.Elem().Underlying().(*types.Array); ok {
				return []string{vc.d.sliceHeap(arr.Elem())}
			}
		}
		return []string{"*"}
	case *ssa.Alloc:
		if fr.privAlloc[a] {
			return []string{fr.privKey(a)}
		}
	}
	pt, ok := addr.Type().Underlying().(*types.Pointer)
	if !ok {
		return []string{"*"}
	}
	if _, ok := isStructT(pt.Elem()); ok {
		return vc.allFieldHeaps(pt.Elem())
	}
	if arr, ok := pt.Elem().Underlying().(*types.Array); ok {
		return []string{vc.d.sliceHeap(arr.Elem())}
	}
	return []string{vc.d.cellHeap(pt.Elem())}
}

// rootCellHeap: if v is an address inside a slice/array element (value cell), return that heap.
func (fr *Frame) rootCellHeap(v ssa.Value) string {
	switch a := v.(type) {
	case *ssa.IndexAddr:
		hs := fr.heapsOfAddr(a)
		if len(hs) == 1 {
			return hs[0]
		}
	case *ssa.FieldAddr:
		return fr.rootCellHeap(a.X)
	}
	return ""
}

func (fr *Frame) rootPriv(v ssa.Value) *ssa.Alloc {
	switch a := v.(type) {
	case *ssa.Alloc:
		if fr.privAlloc[a] {
			return a
		}
	case *ssa.FieldAddr:
		return fr.rootPriv(a.X)
	case *ssa.IndexAddr:
		if _, ok := a.X.Type().Underlying().(*types.Pointer); ok {
			return fr.rootPriv(a.X)
		}
	}
	return nil
}

func (vc *VC) allFieldHeaps(t types.Type) []string {
	s, _ := isStructT(t)
	var out []string
	for i := 0; i < s.NumFields(); i++ {
		if _, ok := isStructT(s.Field(i).Type()); ok {
			out = append(out, vc.allFieldHeaps(s.Field(i).Type())...)
		} else {
			out = append(out, vc.d.fieldHeap(t, i))
		}
	}
	return out
}

func (fr *Frame) privKey(a *ssa.Alloc) string {
	k := "$l." + fr.prefix + a.Name()
	elem := a.Type().Underlying().(*types.Pointer).Elem()
	if _, ok := fr.vc.d.heapSort[k]; !ok {
		fr.vc.d.heapSort[k] = fr.vc.d.sortOf(elem)
	}
	return k
}

func (fr *Frame) loopGhostWrites(li *loopInfo) []string {
	top := fr
	if !fr.top {
		if !fr.extracted && !fr.inlinedHelper {
			return nil
		}
		top = fr.topFrame()
	}
	if top.c == nil || !top.top || len(top.c.Sites) == 0 {
		return nil
	}
	set := map[string]bool{}
	seen := map[*ssa.Function]bool{}
	var scan func(mf *Frame, ins ssa.Instruction, allKinds bool, depth int)
	scan = func(mf *Frame, ins ssa.Instruction, allKinds bool, depth int) {
		for _, sa := range top.c.Sites {
			if !allKinds && sa.When != "call" && sa.When != "aftercall" && sa.When != "go" && sa.When != "defer" {
				continue
			}
			if !mf.siteMatches(sa, ins) {
				continue
			}
			for _, a := range sa.Acts {
				if a.Kind == "set" {
					set["$g."+a.Var] = true
				}
			}
		}
		// helpers executed symbolically inside the loop trigger the function's site clauses too
		if ci, ok := ins.(ssa.CallInstruction); ok && depth < 6 {
			if callee := ci.Common().StaticCallee(); callee != nil && !seen[callee] && len(callee.Blocks) > 0 && fr.vc.g.contractFor(callee) == nil {
				ext := fr.vc.g.extractedFn(callee)
				if ext || fr.vc.g.smallHelper(callee) {
					seen[callee] = true
					sub := &Frame{vc: fr.vc, fn: callee, privAlloc: map[*ssa.Alloc]bool{}, closures: map[ssa.Value]*ssa.MakeClosure{}, freeClos: map[*ssa.FreeVar]*ssa.MakeClosure{}}
					for _, b := range callee.Blocks {
						for _, x := range b.Instrs {
							scan(sub, x, allKinds && ext, depth+1)
						}
					}
				}
			}
		}
	}
	for b := range li.blocks {
		for _, ins := range b.Instrs {
			scan(fr, ins, fr.top || fr.extracted, 0)
		}
	}
	var out []string
	for k := range set {
		out = append(out, k)
	}
	sort.Strings(out)
	return out
}

func (vc *VC) addObl(o *Obligation) {
	o.Func = vc.name
	o.Prelude = vc
	if len(o.Props) == 0 {
		o.Props = vc.curProps
	}
	// snapshot of prelude length so later definitions are not needed (they are harmless, but keep files small)
	o.Extra = fmt.Sprintf("%d %d", len(vc.consts), len(vc.defs))
	vc.obls = append(vc.obls, o)
}

// offZero: static argument that a slice value always has offset 0 in its backing array.
func offZero(v ssa.Value, seen map[ssa.Value]bool) bool {
	if seen[v] {
		return true
	}
	seen[v] = true
	switch x := v.(type) {
	case *ssa.MakeSlice:
		return true
	case *ssa.Call:
		if b, ok := x.Call.Value.(*ssa.Builtin); ok && b.Name() == "append" {
			return true
		}
	case *ssa.Phi:
		for _, e := range x.Edges {
			if !offZero(e, seen) {
				return false
			}
		}
		return true
	case *ssa.Slice:
		if x.Low == nil {
			if _, isPtr := x.X.Type().Underlying().(*types.Pointer); isPtr {
				return true
			}
			return offZero(x.X, seen)
		}
	case *ssa.Const:
		return x.Value == nil
	}
	return false
}

// privateSliceHeaps: element types T such that no value of type []T / *[n]T is passed to a call (other than the builtins
// len, cap, append, copy), stored into the heap, captured by a closure, sent on a channel or converted to an interface
// in this function. Arrays of such T allocated by this invocation are unreachable for anybody else.
func (fr *Frame) privateSliceHeaps() map[string]bool {
	vc := fr.vc
	// the text of the function: its own instructions and those of the extracted functions it calls (code that was
	// moved out of it since the contracts were locked); calls to those are not hand-overs to foreign code
	type textIns struct {
		ins     ssa.Instruction
		foreign bool
	}
	var text []textIns
	seenFn := map[*ssa.Function]bool{fr.fn: true}
	var collect func(fn *ssa.Function, foreign bool, depth int)
	collect = func(fn *ssa.Function, foreign bool, depth int) {
		for _, b := range fn.Blocks {
			for _, ins := range b.Instrs {
				text = append(text, textIns{ins, foreign})
				if ci, ok := ins.(ssa.CallInstruction); ok && depth < 6 {
					if callee := ci.Common().StaticCallee(); callee != nil && !seenFn[callee] && vc.g.extractedFn(callee) {
						seenFn[callee] = true
						collect(callee, true, depth+1)
					}
				}
			}
		}
	}
	collect(fr.fn, false, 0)
	isExtractedCall := func(c *ssa.CallCommon) bool {
		callee := c.StaticCallee()
		return callee != nil && callee != fr.fn && seenFn[callee]
	}
	cands := map[string]types.Type{}
	elemOf := func(t types.Type) types.Type {
		switch u := t.Underlying().(type) {
		case *types.Slice:
			return u.Elem()
		case *types.Pointer:
			if a, ok := u.Elem().Underlying().(*types.Array); ok {
				return a.Elem()
			}
		}
		return nil
	}
	for _, ti := range text {
		{
			ins, foreign := ti.ins, ti.foreign
			_ = foreign
			switch x := ins.(type) {
			case *ssa.MakeSlice:
				if e := elemOf(x.Type()); e != nil {
					cands[vc.d.sliceHeap(e)] = e
				}
			case *ssa.Call:
				if bi, ok := x.Call.Value.(*ssa.Builtin); ok && bi.Name() == "append" {
					if e := elemOf(x.Type()); e != nil {
						cands[vc.d.sliceHeap(e)] = e
					}
				}
			}
		}
	}
	escapes := map[string]bool{}
	mark := func(v ssa.Value) {
		if v == nil {
			return
		}
		if e := elemOf(v.Type()); e != nil {
			escapes[vc.d.sliceHeap(e)] = true
		}
	}
	for _, ti := range text {
		{
			ins, foreign := ti.ins, ti.foreign
			_ = foreign
			switch x := ins.(type) {
			case ssa.CallInstruction:
				c := x.Common()
				if isExtractedCall(c) {
					continue
				}
				if bi, ok := c.Value.(*ssa.Builtin); ok {
					switch bi.Name() {
					case "len", "cap", "append", "copy":
						continue
					}
				}
				for _, a := range c.Args {
					mark(a)
				}
				if c.IsInvoke() {
					mark(c.Value)
				}
			case *ssa.Store:
				if foreign {
					if _, local := x.Addr.(*ssa.Alloc); !local {
						mark(x.Val)
					}
				} else if _, priv := fr.locsPrivate(x.Addr); !priv {
					mark(x.Val)
				}
			case *ssa.MapUpdate:
				mark(x.Value)
				mark(x.Key)
			case *ssa.MakeClosure:
				for _, bnd := range x.Bindings {
					mark(bnd)
					if pt, ok := bnd.Type().Underlying().(*types.Pointer); ok {
						if e := elemOf(pt.Elem()); e != nil {
							escapes[vc.d.sliceHeap(e)] = true
						}
					}
				}
			case *ssa.Send:
				mark(x.X)
			case *ssa.MakeInterface:
				mark(x.X)
			case *ssa.Return:
				// returning hands the object to the caller only after this invocation ended: fine
			}
		}
	}
	out := map[string]bool{}
	for h := range cands {
		if !escapes[h] {
			out[h] = true
		}
	}
	// maps: a map type no value of which is passed on, stored, captured, sent or boxed in this function
	mapTypes := map[string]*types.Map{}
	mapEsc := map[string]bool{}
	markMap := func(v ssa.Value) {
		if v == nil {
			return
		}
		if mt, ok := v.Type().Underlying().(*types.Map); ok {
			mapEsc[types.TypeString(mt, nil)] = true
		}
	}
	for _, ti := range text {
		{
			ins, foreign := ti.ins, ti.foreign
			_ = foreign
			if v, ok := ins.(ssa.Value); ok {
				if mt, ok := v.Type().Underlying().(*types.Map); ok {
					mapTypes[types.TypeString(mt, nil)] = mt
				}
			}
			switch x := ins.(type) {
			case ssa.CallInstruction:
				c := x.Common()
				if isExtractedCall(c) {
					continue
				}
				if bi, ok := c.Value.(*ssa.Builtin); ok {
					switch bi.Name() {
					case "len", "delete":
						continue
					}
				}
				for _, a := range c.Args {
					markMap(a)
				}
				if c.IsInvoke() {
					markMap(c.Value)
				}
			case *ssa.Store:
				if foreign {
					if _, local := x.Addr.(*ssa.Alloc); !local {
						markMap(x.Val)
					}
				} else if _, priv := fr.locsPrivate(x.Addr); !priv {
					markMap(x.Val)
				}
			case *ssa.MapUpdate:
				markMap(x.Value)
			case *ssa.MakeClosure:
				for _, bnd := range x.Bindings {
					markMap(bnd)
					if pt, ok := bnd.Type().Underlying().(*types.Pointer); ok {
						if mt, ok := pt.Elem().Underlying().(*types.Map); ok {
							mapEsc[types.TypeString(mt, nil)] = true
						}
					}
				}
			case *ssa.Send:
				markMap(x.X)
			case *ssa.MakeInterface:
				markMap(x.X)
			}
		}
	}
	for k, mt := range mapTypes {
		if !mapEsc[k] {
			a, b, c := vc.d.mapHeaps(mt)
			out[a], out[b], out[c] = true, true, true
		}
	}
	return out
}

func (fr *Frame) locsPrivate(addr ssa.Value) (*ssa.Alloc, bool) {
	a := fr.rootPriv(addr)
	return a, a != nil
}

type lookupInfo struct {
	key, val, ok string
	keyT, valT   types.Type
}

// typeParam resolves a type parameter name of the function under verification (generic bodies are verified with their
// type parameters as abstract sorts).
func (vc *VC) typeParam(name string) types.Type {
	if vc.fn == nil {
		return nil
	}
	var found types.Type
	var visit func(t types.Type, depth int)
	seen := map[types.Type]bool{}
	visit = func(t types.Type, depth int) {
		if t == nil || depth > 6 || seen[t] || found != nil {
			return
		}
		seen[t] = true
		switch x := t.(type) {
		case *types.TypeParam:
			if x.Obj().Name() == name {
				found = x
			}
		case *types.Pointer:
			visit(x.Elem(), depth+1)
		case *types.Slice:
			visit(x.Elem(), depth+1)
		case *types.Map:
			visit(x.Key(), depth+1)
			visit(x.Elem(), depth+1)
		case *types.Named:
			if ta := x.TypeArgs(); ta != nil {
				for i := 0; i < ta.Len(); i++ {
					visit(ta.At(i), depth+1)
				}
			}
		case *types.Tuple:
			for i := 0; i < x.Len(); i++ {
				visit(x.At(i).Type(), depth+1)
			}
		case *types.Signature:
			visit(x.Params(), depth+1)
			visit(x.Results(), depth+1)
		}
	}
	for _, p := range vc.fn.Params {
		visit(p.Type(), 0)
	}
	visit(vc.fn.Signature, 0)
	return found
}
