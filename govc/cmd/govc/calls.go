package main

import (
	"fmt"
	"go/token"
	"go/types"
	"sort"
	"strings"

	"golang.org/x/tools/go/ssa"
)

type effect struct {
	all   bool
	names map[string]bool
}

func (fr *Frame) doCall(x *ssa.Call, pc *string, st *State) []string {
	return fr.doCallCommon(x, &x.Call, pc, st)
}

// resolveCallee finds the static function for a call if any (direct, or via a closure value known in this frame).
func (fr *Frame) resolveCallee(c *ssa.CallCommon) (*ssa.Function, *ssa.MakeClosure) {
	if c.IsInvoke() {
		return nil, nil
	}
	if f := c.StaticCallee(); f != nil {
		if mc, ok := c.Value.(*ssa.MakeClosure); ok {
			return f, mc
		}
		return f, nil
	}
	if mc, ok := fr.closures[c.Value]; ok {
		return mc.Fn.(*ssa.Function), mc
	}
	if fv, ok := c.Value.(*ssa.FreeVar); ok {
		if mc, ok := fr.freeClos[fv]; ok {
			return mc.Fn.(*ssa.Function), mc
		}
	}
	return nil, nil
}

func (fr *Frame) doCallCommon(ins ssa.Instruction, c *ssa.CallCommon, pc *string, st *State) []string {
	vc := fr.vc
	d := vc.d
	var args []string
	for _, a := range c.Args {
		args = append(args, fr.v1(a))
	}
	if b, ok := c.Value.(*ssa.Builtin); ok {
		return fr.builtin(ins, b, c, args, pc, st)
	}
	var resT *types.Tuple
	if sig, ok := c.Value.Type().Underlying().(*types.Signature); ok {
		resT = sig.Results()
	} else if c.IsInvoke() {
		resT = c.Method.Type().(*types.Signature).Results()
	}
	freshResults := func() []string {
		var rs []string
		for i := 0; resT != nil && i < resT.Len(); i++ {
			n := vc.fresh(fr.prefix+"call", d.sortOf(resT.At(i).Type()))
			*pc = fr.assume(*pc, vc.typeAssume(n, resT.At(i).Type(), st))
			rs = append(rs, n)
		}
		return rs
	}
	names := calleeNames(c)
	if len(names) > 0 && names[0] == "reflect.TypeOf" && len(args) == 1 {
		// the reflect.Type of a value is a function of its dynamic type and of nothing else, and two of them are equal
		// exactly if the dynamic types are: modelled as an interface value that carries the operand's type tag
		return []string{fmt.Sprintf("(mk-iface (ite (= (i.tag %s) 0) 0 %d) (i.tag %s))", args[0], d.typeTagNamed("*reflect.rtype"), args[0])}
	}
	// contract?
	var fc *FuncContract
	var callee *ssa.Function
	var mc *ssa.MakeClosure
	if c.IsInvoke() {
		fc = vc.g.contractForNames(names)
	} else {
		callee, mc = fr.resolveCallee(c)
		if callee != nil {
			fc = vc.g.contractFor(callee)
		} else if k := fieldCallKey(c.Value); k != "" {
			fc = vc.g.contracts[k]
			names = []string{k}
		}
	}
	if fc != nil {
		var actuals [][]string
		if c.IsInvoke() {
			actuals = append(actuals, fr.val(c.Value))
		}
		for _, a := range args {
			actuals = append(actuals, []string{a})
		}
		fr.applyMC = mc
		defer func() { fr.applyMC = nil }()
		return fr.applyContract(ins, fc, callee, c, actuals, pc, st, freshResults)
	}
	if vc.g.noEffect(names) {
		return freshResults()
	}
	if p, ok := c.Value.(*ssa.Parameter); ok && fr.extracted {
		// a function parameter of the function under verification handed on to the extracted function
		cf := fr
		for cf.extracted && cf.paramOrigin[p] != nil {
			p = cf.paramOrigin[p]
			cf = cf.parent
		}
		if cf.top && cf.c != nil && cf.c.Opts["pure-params"] != "" {
			for _, n := range strings.Split(cf.c.Opts["pure-params"], ",") {
				if strings.TrimSpace(n) == p.Name() {
					vc.note("calls through the function parameter %s of %s treated as pure (every call site passes a closure under a pure contract)", p.Name(), shortKey(cf.fn.String()))
					return freshResults()
				}
			}
		}
	}
	if p, ok := c.Value.(*ssa.Parameter); ok && fr.c != nil && fr.c.Opts["pure-params"] != "" {
		for _, n := range strings.Split(fr.c.Opts["pure-params"], ",") {
			if strings.TrimSpace(n) == p.Name() {
				vc.note("calls through the function parameter %s of %s treated as pure (every call site passes a closure under a pure contract)", p.Name(), shortKey(fr.fn.String()))
				return freshResults()
			}
		}
	}
	if callee != nil && mc == nil && (fr.top || fr.extracted) && vc.inlineDepth < 6 && vc.g.extractedFn(callee) {
		vc.note("%s did not exist when the contracts were locked and has no contract: executed as part of the text of %s (loop ordinals continue at the call site)", shortKey(callee.String()), shortKey(fr.fn.String()))
		fr.inlineAt = ins
		defer func() { fr.inlineAt = nil }()
		return fr.inlineCall(callee, mc, c, args, pc, st)
	}
	if callee != nil && vc.g.autoInline(callee, names) && vc.inlineDepth < 6 && len(callee.Blocks) > 0 {
		if loops, err := findLoops(callee); err == nil && len(loops) == 0 {
			return fr.inlineCall(callee, mc, c, args, pc, st)
		}
	}
	vc.note("call to %s without contract: havoc of all heap state, result unconstrained", names[0])
	saved := append(fr.saveCapturedCells(c, st), fr.saveStableCells(st)...)
	vc.havocAllKeeping(st, fr.topFrame().privHeaps)
	fr.restoreCells(st, saved)
	return freshResults()
}

func (fr *Frame) inlineCall(callee *ssa.Function, mc *ssa.MakeClosure, c *ssa.CallCommon, args []string, pc *string, st *State) []string {
	vc := fr.vc
	vc.inlineDepth++
	defer func() { vc.inlineDepth-- }()
	sub := vc.newFrame(callee, fr)
	sub.inlinedHelper = mc == nil && (fr.top || fr.inlinedHelper)
	if fr.inlineAt != nil {
		sub.extracted = true
		sub.inlinedHelper = true
		sub.callSite = fr.inlineAt
		sub.loopBase = fr.siteBase[fr.inlineAt]
		sub.alias = map[string]string{}
		fr.inlineAt = nil
	}
	for i, p := range callee.Params {
		if i < len(args) {
			if pp, ok := c.Args[i].(*ssa.Parameter); ok && sub.extracted {
				if sub.paramOrigin == nil {
					sub.paramOrigin = map[*ssa.Parameter]*ssa.Parameter{}
				}
				sub.paramOrigin[p] = pp
			}
			if sub.extracted {
				// the caller's name of the argument stays in force for the parameter (contracts were written over the caller's text)
				if an := fr.sourceName(c.Args[i]); an != "" && an != p.Name() {
					sub.alias[p.Name()] = an
				}
			}
			sub.vals[p] = []string{args[i]}
			if mcl, ok := fr.closures[c.Args[i]]; ok {
				sub.closures[p] = mcl
			}
		}
	}
	if mc != nil {
		fr.bindFreeVars(sub, mc)
	}
	rpc, rst, res := sub.run(*pc, st.clone())
	*st = *rst
	// paths that panic inside the callee do not continue
	*pc = rpc
	var out []string
	for _, r := range res {
		out = append(out, r[0])
	}
	return out
}

// sourceName: the source-level variable an SSA value stands for in this frame ("" if none).
func (fr *Frame) sourceName(v ssa.Value) string {
	switch a := v.(type) {
	case *ssa.Phi:
		if a.Comment != "" && a.Comment != "rangeindex" {
			return fr.aliased(a.Comment)
		}
	case *ssa.Parameter:
		return fr.aliased(a.Name())
	case *ssa.UnOp:
		if al, ok := a.X.(*ssa.Alloc); ok && a.Op == token.MUL && al.Comment != "" {
			return fr.aliased(al.Comment)
		}
	}
	return fr.aliased(fr.debugName(v))
}

func (fr *Frame) aliased(n string) string {
	if o, ok := fr.alias[n]; ok {
		return o
	}
	return n
}

// callerNames binds, for a frame of an extracted function, the names visible in the calling frames at the call sites
// (outermost first, so that inner names shadow outer ones); the frame's own names are bound by the caller afterwards.
func (fr *Frame) callerNames(env *SpecEnv, own map[string]bool) {
	if !fr.extracted || fr.parent == nil {
		return
	}
	p := fr.parent
	p.callerNames(env, own)
	bind := func(name string, t tv) {
		if own[name] {
			return
		}
		env.vars[name] = t
		delete(env.lazy, name)
	}
	for name, v := range p.namedValuesAtInstr(fr.callSite) {
		bind(name, tv{t: p.v1(v), ty: v.Type()})
		if old, ok := p.alias[name]; ok {
			bind(old, tv{t: p.v1(v), ty: v.Type()})
		}
	}
	for _, l := range p.loops {
		if !l.blocks[fr.callSite.Block()] {
			continue
		}
		for _, phi := range l.phis {
			if phi.Comment == "rangeindex" {
				env.hash[fmt.Sprintf("i%d", l.ordinal)] = tv{t: p.v1(phi), ty: tInt}
				continue
			}
			if phi.Comment != "" {
				bind(phi.Comment, tv{t: p.v1(phi), ty: phi.Type()})
				if old, ok := p.alias[phi.Comment]; ok {
					bind(old, tv{t: p.v1(phi), ty: phi.Type()})
				}
			}
		}
	}
	for a := range p.privAlloc {
		if a.Comment != "" {
			if l, ok := p.locs[a]; ok && !own[a.Comment] {
				delete(env.vars, a.Comment)
				env.lazy[a.Comment] = l
				if old, ok := p.alias[a.Comment]; ok && !own[old] {
					delete(env.vars, old)
					env.lazy[old] = l
				}
			}
		}
	}
	if !p.top {
		for _, prm := range p.fn.Params {
			if _, ok := p.vals[prm]; ok {
				bind(prm.Name(), tv{t: p.v1(prm), ty: prm.Type()})
				if old, ok := p.alias[prm.Name()]; ok {
					bind(old, tv{t: p.v1(prm), ty: prm.Type()})
				}
			}
		}
	}
}

func (fr *Frame) bindFreeVars(sub *Frame, mc *ssa.MakeClosure) {
	fn := mc.Fn.(*ssa.Function)
	// bindings are evaluated in the frame that created the closure; walk up to find it
	owner := fr
	for owner != nil {
		if _, ok := owner.vals[mc]; ok {
			break
		}
		owner = owner.parent
	}
	if owner == nil {
		owner = fr
	}
	for i, fv := range fn.FreeVars {
		b := mc.Bindings[i]
		if l, ok := owner.locs[b]; ok {
			sub.freeLocs[fv] = l
			continue
		}
		sub.freeVals[fv] = owner.val(b)
		if mcl, ok := owner.closures[b]; ok {
			sub.freeClos[fv] = mcl
		}
	}
}

// applyContract: assert requires, havoc modifies, assume ensures.
func (fr *Frame) applyContract(ins ssa.Instruction, fc *FuncContract, callee *ssa.Function, c *ssa.CallCommon, actuals [][]string, pc *string, st *State, freshResults func() []string) []string {
	vc := fr.vc
	sigInfo := vc.g.sigOf(fc)
	if sigInfo == nil {
		vc.failed = fmt.Errorf("contract %s: cannot resolve signature", fc.Header)
		return nil
	}
	if fc.Inline {
		name, err := vc.inlineDef(fc)
		if err != nil {
			vc.failed = err
			return nil
		}
		var as []string
		for _, a := range actuals {
			as = append(as, a[0])
		}
		if len(as) == 0 {
			return []string{name}
		}
		return []string{"(" + name + " " + strings.Join(as, " ") + ")"}
	}
	env := vc.newEnv(fc.PkgPath, st)
	sigInfo, env.tpBind = instantiateSig(sigInfo, callee, c)
	pre := st.clone()
	env.old = pre
	if len(actuals) != len(sigInfo.params) {
		vc.failed = fmt.Errorf("contract %s: arity mismatch at call (%d actuals, %d formals)", fc.Header, len(actuals), len(sigInfo.params))
		return nil
	}
	for i, p := range sigInfo.params {
		env.vars[p.name] = tv{t: actuals[i][0], ty: p.ty}
	}
	if fr.applyMC != nil {
		fr.bindFreeVarsEnv(env, fr.applyMC)
	}
	key := fc.Key
	fr.callOrd[key]++
	ord := fr.callOrd[key]
	for _, r := range fc.Requires {
		t, err := env.boolExpr(r.E)
		if err != nil {
			vc.failed = fmt.Errorf("%s: requires of %s: %v", vc.name, fc.Key, err)
			return nil
		}
		if tc := fr.topFrame().c; tc != nil && tc.Opts["callee-requires"] == "assume" {
			// "opt callee-requires=assume": this function is under contract for site clauses only; the preconditions of the
			// functions it calls are data assumptions it inherits (they were unchecked before it had a contract, too)
			vc.note("precondition of %s assumed at its call sites in %s (opt callee-requires=assume): %s", shortKey(key), shortKey(fr.topFrame().fn.String()), r.Src)
		} else {
			vc.addObl(&Obligation{Name: fmt.Sprintf("requires@%s/%d:%s", shortKey(key), ord, r.Name), Kind: "requires", PC: *pc, Goal: t, Src: r.Src})
		}
		*pc = fr.assume(*pc, t)
	}
	// frame
	switch {
	case !fc.HasMod || fc.ModAll:
		if !fc.HasMod {
			vc.note("contract of %s has no modifies clause: treated as modifies *", fc.Key)
		}
		saved := append(fr.saveCapturedCells(c, st), fr.saveStableCells(st)...)
		vc.havocAllKeeping(st, fr.topFrame().privHeaps)
		fr.restoreCells(st, saved)
	default:
		if !fc.Pure {
			// The callee may allocate and initialise new objects. Allocation does not change the heap arrays: cells at
			// addresses >= $alloc are unspecified (nothing is ever assumed about them), so the callee's postconditions about
			// its fresh results simply constrain those cells. Only the watermark moves.
			old := vc.stGet0(st, "$alloc")
			na := vc.freshName("$alloc", "Int")
			st.m["$alloc"] = na
			vc.axiom(fmt.Sprintf("(>= %s %s)", na, old))
		}
		for _, m := range fc.Modifies {
			tg, err := env.modTargets(m)
			if err != nil {
				vc.failed = fmt.Errorf("%s: modifies of %s: %v", vc.name, fc.Key, err)
				return nil
			}
			for _, t := range tg {
				fr.havocTarget(st, t)
			}
		}
	}
	res := freshResults()
	env.st = st
	for i, r := range sigInfo.results {
		if i < len(res) {
			env.vars[r.name] = tv{t: res[i], ty: r.ty}
			if i == 0 {
				env.vars["result"] = tv{t: res[i], ty: r.ty}
			}
			env.vars[fmt.Sprintf("result%d", i)] = tv{t: res[i], ty: r.ty}
		}
	}
	ghostNames := map[string]bool{}
	for _, gv := range fc.Ghosts {
		ghostNames[gv.Name] = true
	}
	for _, e := range fc.Ensures {
		if len(ghostNames) > 0 && mentionsIdent(e.E, ghostNames) {
			continue // postcondition over the callee's own ghost variables: meaningful only inside the callee
		}
		t, err := env.assumeExpr(e.E)
		if err != nil {
			vc.failed = fmt.Errorf("%s: ensures of %s: %v", vc.name, fc.Key, err)
			return nil
		}
		*pc = fr.assume(*pc, t)
	}
	if fc.Trusted || fc.NoVerify {
		vc.note("assumed contract: %s", fc.Key)
	}
	return res
}

func shortKey(k string) string {
	k = strings.ReplaceAll(k, "github.com/AliceO2Group/Control/", "")
	return k
}

type modTarget struct {
	heap string
	ref  string // "" => whole heap
	idx  string // for slice heaps: element index inside backing array ("" => whole array)
}

func (fr *Frame) havocTarget(st *State, t modTarget) {
	vc := fr.vc
	if t.ref == "" {
		st.m[t.heap] = vc.fresh(t.heap, vc.sortOfState(t.heap))
		return
	}
	srt := vc.sortOfState(t.heap) // (Array Int X)
	elemSort := strings.TrimSuffix(strings.TrimPrefix(srt, "(Array Int "), ")")
	cur := vc.stGet(st, t.heap)
	if t.idx != "" {
		inner := strings.TrimSuffix(strings.TrimPrefix(elemSort, "(Array Int "), ")")
		f := vc.fresh("hv", inner)
		vc.stSet(st, t.heap, fmt.Sprintf("(store %s %s (store (select %s %s) %s %s))", cur, t.ref, cur, t.ref, t.idx, f))
		return
	}
	f := vc.fresh("hv", elemSort)
	vc.stSet(st, t.heap, fmt.Sprintf("(store %s %s %s)", cur, t.ref, f))
}

// callEffect: conservative syntactic effect of a call (used when havocking at loop heads).
func (fr *Frame) callEffect(ci ssa.CallInstruction) effect {
	vc := fr.vc
	c := ci.Common()
	eff := effect{names: map[string]bool{}}
	if b, ok := c.Value.(*ssa.Builtin); ok {
		switch b.Name() {
		case "append":
			if s, ok := c.Args[0].Type().Underlying().(*types.Slice); ok {
				eff.names[vc.d.sliceHeap(s.Elem())] = true
			}
		case "copy":
			if s, ok := c.Args[0].Type().Underlying().(*types.Slice); ok {
				eff.names[vc.d.sliceHeap(s.Elem())] = true
			}
		case "delete", "clear":
			if m, ok := c.Args[0].Type().Underlying().(*types.Map); ok {
				a, b, cc := vc.d.mapHeaps(m)
				eff.names[a], eff.names[b], eff.names[cc] = true, true, true
			}
			if s, ok := c.Args[0].Type().Underlying().(*types.Slice); ok {
				eff.names[vc.d.sliceHeap(s.Elem())] = true
			}
		case "close", "panic", "print", "println", "recover":
		}
		return eff
	}
	if _, isGo := ci.(*ssa.Go); isGo {
		eff.all = true
		return eff
	}
	names := calleeNames(c)
	var fc *FuncContract
	var callee *ssa.Function
	if c.IsInvoke() {
		fc = vc.g.contractForNames(names)
	} else {
		callee, _ = fr.resolveCallee(c)
		if callee != nil {
			fc = vc.g.contractFor(callee)
		}
	}
	if fc != nil {
		if fc.Pure || fc.Inline {
			return eff
		}
		if !fc.HasMod || fc.ModAll {
			eff.all = true
			return eff
		}
		// type-based over-approximation of the modifies targets
		env := vc.newEnv(fc.PkgPath, nil)
		env.typeOnly = true
		sig := vc.g.sigOf(fc)
		if sig == nil {
			eff.all = true
			return eff
		}
		for _, p := range sig.params {
			env.vars[p.name] = tv{t: "?", ty: p.ty}
		}
		for _, m := range fc.Modifies {
			tg, err := env.modTargets(m)
			if err != nil {
				eff.all = true
				return eff
			}
			for _, t := range tg {
				eff.names[t.heap] = true
			}
		}
		return eff
	}
	if vc.g.noEffect(names) {
		return eff
	}
	if callee != nil && vc.g.autoInline(callee, names) && len(callee.Blocks) > 0 {
		return fr.bodyEffect(callee, 0)
	}
	eff.all = true
	return eff
}

func (fr *Frame) bodyEffect(fn *ssa.Function, depth int) effect {
	eff := effect{names: map[string]bool{}}
	if depth > 6 {
		eff.all = true
		return eff
	}
	sub := &Frame{vc: fr.vc, fn: fn, privAlloc: map[*ssa.Alloc]bool{}, closures: map[ssa.Value]*ssa.MakeClosure{}, freeClos: map[*ssa.FreeVar]*ssa.MakeClosure{}}
	for _, b := range fn.Blocks {
		for _, ins := range b.Instrs {
			switch x := ins.(type) {
			case *ssa.Store:
				for _, h := range sub.heapsOfAddr(x.Addr) {
					if h == "*" {
						eff.all = true
					}
					eff.names[h] = true
				}
			case *ssa.MapUpdate:
				if mt, ok := x.Map.Type().Underlying().(*types.Map); ok {
					a, b, c := fr.vc.d.mapHeaps(mt)
					eff.names[a], eff.names[b], eff.names[c] = true, true, true
				} else {
					eff.all = true
				}
			case ssa.CallInstruction:
				e := sub.callEffect(x)
				if e.all {
					eff.all = true
				}
				for n := range e.names {
					eff.names[n] = true
				}
			case *ssa.Select:
				eff.all = true
			}
		}
	}
	return eff
}

func (fr *Frame) builtin(ins ssa.Instruction, b *ssa.Builtin, c *ssa.CallCommon, args []string, pc *string, st *State) []string {
	vc := fr.vc
	d := vc.d
	switch b.Name() {
	case "len":
		switch u := c.Args[0].Type().Underlying().(type) {
		case *types.Slice:
			return []string{slLen(args[0])}
		case *types.Basic:
			if d.sortOf(u) == "String" {
				return []string{fmt.Sprintf("(str.len %s)", args[0])}
			}
			d.strUFDecls()
			return []string{fmt.Sprintf("(strlen %s)", args[0])}
		case *types.Map:
			_, _, card := d.mapHeaps(u)
			n := vc.define("maplen", "Int", fmt.Sprintf("(ite (= %s 0) 0 (select %s %s))", args[0], vc.stGet(st, card), args[0]))
			*pc = fr.assume(*pc, fmt.Sprintf("(>= %s 0)", n))
			// cardinality and domain agree on emptiness
			dom, _, _ := d.mapHeaps(u)
			ks := d.sortOf(u.Key())
			dm := fmt.Sprintf("(select %s %s)", vc.stGet(st, dom), args[0])
			*pc = fr.assume(*pc, fmt.Sprintf("(and (=> (= %s 0) (forall ((kk %s)) (! (not (and (not (= %s 0)) (select %s kk))) :pattern ((select %s kk))))) (=> (> %s 0) (and (not (= %s 0)) (exists ((kk %s)) (select %s kk)))))", n, ks, args[0], dm, dm, n, args[0], ks, dm))
			return []string{n}
		case *types.Array:
			return []string{fmt.Sprint(u.Len())}
		case *types.Pointer:
			if a, ok := u.Elem().Underlying().(*types.Array); ok {
				return []string{fmt.Sprint(a.Len())}
			}
		case *types.Chan:
			n := vc.fresh("chanlen", "Int")
			*pc = fr.assume(*pc, fmt.Sprintf("(>= %s 0)", n))
			return []string{n}
		}
	case "cap":
		if _, ok := c.Args[0].Type().Underlying().(*types.Slice); ok {
			return []string{fmt.Sprintf("(s.cap %s)", args[0])}
		}
	case "append":
		st0, ok := c.Args[0].Type().Underlying().(*types.Slice)
		if !ok {
			break
		}
		h := d.sliceHeap(st0.Elem())
		es := d.sortOf(st0.Elem())
		s, t := args[0], args[1]
		ref := fr.alloc(st)
		heap := vc.stGet(st, h)
		na := vc.fresh("app", "(Array Int "+es+")")
		var tlen, tsel string
		if d.sortOf(c.Args[1].Type()) == "Slice" {
			tlen = slLen(t)
			tsel = fmt.Sprintf("(select (select %s %s) %s)", heap, slArr(t), slIdx(t, fmt.Sprintf("(- i %s)", slLen(s))))
		} else {
			// append([]byte, string...)
			vc.note("append of string bytes abstracted")
			tl := vc.fresh("applen", "Int")
			*pc = fr.assume(*pc, fmt.Sprintf("(>= %s 0)", tl))
			tlen = tl
			tsel = ""
		}
		vc.axiom(fmt.Sprintf("(forall ((i Int)) (! (=> (and (<= 0 i) (< i %s)) (= (select %s i) (select (select %s %s) %s))) :pattern ((select %s i))))", slLen(s), na, heap, slArr(s), slIdx(s, "i"), na))
		if tsel != "" {
			vc.axiom(fmt.Sprintf("(forall ((i Int)) (! (=> (and (<= %s i) (< i (+ %s %s))) (= (select %s i) %s)) :pattern ((select %s i))))", slLen(s), slLen(s), tlen, na, tsel, na))
		}
		nl := fmt.Sprintf("(+ %s %s)", slLen(s), tlen)
		nc := vc.fresh("appcap", "Int")
		vc.axiom(fmt.Sprintf("(>= %s %s)", nc, nl))
		// Spare capacity: when the elements fit into the capacity of the first operand, Go writes them into ITS backing
		// array and the result shares that array. Three cases: (A) they do not fit: a new array; (B) they fit and the
		// operand starts at offset 0: the operand's array, changed from its length on; (C) they fit and the operand has an
		// offset: the whole heap component is given up (no positional model for that case).
		scap := fmt.Sprintf("(s.cap %s)", s)
		soff := fmt.Sprintf("(s.off %s)", s)
		if p := slParts(s); p != nil {
			scap, soff = p[3], p[1]
		}
		fits := vc.define("appfits", "Bool", fmt.Sprintf("(and (not (= %s 0)) (<= %s %s))", slArr(s), nl, scap))
		if scap == "0" || fits == "false" || tsel == "" {
			vc.stSet(st, h, fmt.Sprintf("(store %s %s %s)", heap, ref, na))
			return []string{fmt.Sprintf("(mk-slice %s 0 %s %s)", ref, nl, nc)}
		}
		vc.note("append may reuse spare capacity of its first operand: the result is a new array only if the elements do not fit")
		// in place: the operand's array, unchanged except for the positions from its length on
		nb := vc.fresh("appinpl", "(Array Int "+es+")")
		lo := fmt.Sprintf("(+ %s %s)", soff, slLen(s))
		tselJ := strings.ReplaceAll(tsel, "(- i "+slLen(s)+")", "(- (- j "+soff+") "+slLen(s)+")")
		vc.axiom(fmt.Sprintf("(=> %s (forall ((j Int)) (! (= (select %s j) (ite (and (<= %s j) (< j (+ %s %s))) %s (select (select %s %s) j))) :pattern ((select %s j)))))",
			fits, nb, lo, soff, nl, tselJ, heap, slArr(s), nb))
		vc.stSet(st, h, fmt.Sprintf("(ite %s (store %s %s %s) (store %s %s %s))", fits, heap, slArr(s), nb, heap, ref, na))
		rr := vc.define("apparr", "Int", fmt.Sprintf("(ite %s %s %s)", fits, slArr(s), ref))
		rc := vc.define("apprcap", "Int", fmt.Sprintf("(ite %s %s %s)", fits, scap, nc))
		ro := "0"
		if soff != "0" {
			ro = vc.define("approff", "Int", fmt.Sprintf("(ite %s %s 0)", fits, soff))
		}
		return []string{fmt.Sprintf("(mk-slice %s %s %s %s)", rr, ro, nl, rc)}
	case "copy":
		dt, ok := c.Args[0].Type().Underlying().(*types.Slice)
		if !ok || d.sortOf(c.Args[1].Type()) != "Slice" {
			break
		}
		h := d.sliceHeap(dt.Elem())
		es := d.sortOf(dt.Elem())
		dst, src := args[0], args[1]
		heap := vc.stGet(st, h)
		n := vc.define("copyn", "Int", fmt.Sprintf("(ite (< (s.len %s) (s.len %s)) (s.len %s) (s.len %s))", dst, src, dst, src))
		na := vc.fresh("cpy", "(Array Int "+es+")")
		vc.axiom(fmt.Sprintf("(forall ((i Int)) (! (= (select %s i) (ite (and (<= (s.off %s) i) (< i (+ (s.off %s) %s))) (select (select %s (s.arr %s)) (+ (s.off %s) (- i (s.off %s)))) (select (select %s (s.arr %s)) i))) :pattern ((select %s i))))",
			na, dst, dst, n, heap, src, src, dst, heap, dst, na))
		vc.stSet(st, h, fmt.Sprintf("(ite (= (s.arr %s) 0) %s (store %s (s.arr %s) %s))", dst, heap, heap, dst, na))
		return []string{n}
	case "delete":
		if mt, ok := c.Args[0].Type().Underlying().(*types.Map); ok {
			fr.mapDelete(st, mt, args[0], args[1])
			return nil
		}
	case "clear":
		// clear(m): the map (shared by every alias of it) has no entries afterwards; clear of a nil map is a no-op
		if mt, ok := c.Args[0].Type().Underlying().(*types.Map); ok {
			dom, _, card := d.mapHeaps(mt)
			m := args[0]
			dh, ch := vc.stGet(st, dom), vc.stGet(st, card)
			vc.stSet(st, card, fmt.Sprintf("(ite (= %s 0) %s (store %s %s 0))", m, ch, ch, m))
			vc.stSet(st, dom, fmt.Sprintf("(ite (= %s 0) %s (store %s %s ((as const (Array %s Bool)) false)))", m, dh, dh, m, d.sortOf(mt.Key())))
			return nil
		}
	case "close", "print", "println":
		return nil
	case "panic":
		return nil
	case "min", "max":
		if len(args) == 2 && d.sortOf(c.Args[0].Type()) == "Int" {
			op := "<"
			if b.Name() == "max" {
				op = ">"
			}
			return []string{fmt.Sprintf("(ite (%s %s %s) %s %s)", op, args[0], args[1], args[0], args[1])}
		}
	}
	vc.note("builtin %s abstracted", b.Name())
	fr.havocInterference(st)
	if v, ok := ins.(ssa.Value); ok {
		if _, isTup := v.Type().(*types.Tuple); !isTup {
			n := vc.fresh(fr.prefix+"bi", d.sortOf(v.Type()))
			*pc = fr.assume(*pc, vc.typeAssume(n, v.Type(), st))
			return []string{n}
		}
	}
	return nil
}

// goStmt: spawn. The spawned function may run at any later time: havoc its effect now and mark the state as
// subject to interference (all heap unknown) unless the closure carries a contract with a modifies clause.
func (fr *Frame) goStmt(x *ssa.Go, pc *string, st *State) {
	vc := fr.vc
	callee, _ := fr.resolveCallee(&x.Call)
	if callee != nil {
		if fc := vc.g.contractFor(callee); fc != nil && fc.HasMod && !fc.ModAll {
			// only declared targets are affected
			env := vc.newEnv(fc.PkgPath, st)
			sig := vc.g.sigOf(fc)
			if sig != nil {
				for i, p := range sig.params {
					if i < len(x.Call.Args) {
						env.vars[p.name] = tv{t: fr.v1(x.Call.Args[i]), ty: p.ty}
					}
				}
				ok := true
				for _, m := range fc.Modifies {
					tg, err := env.modTargets(m)
					if err != nil {
						ok = false
						break
					}
					for _, t := range tg {
						// interference persists: havoc whole heap component
						fr.havocTarget(st, modTarget{heap: t.heap})
					}
				}
				if ok {
					vc.note("go %s: interference limited to its declared modifies set", callee.String())
					return
				}
			}
		}
	}
	vc.note("go statement: havoc of all heap state")
	fr.havocInterference(st)
}

// ---------------------------------------------------------------------------
// Site clauses

func (fr *Frame) sitesFor(ins ssa.Instruction) []*SiteAction {
	if fr.c == nil || !fr.top || len(fr.c.Sites) == 0 {
		return nil
	}
	var out []*SiteAction
	for _, sa := range fr.c.Sites {
		if fr.siteMatches(sa, ins) {
			out = append(out, sa)
		}
	}
	return out
}

func (fr *Frame) siteMatches(sa *SiteAction, ins ssa.Instruction) bool {
	switch sa.When {
	case "call", "aftercall", "go", "defer":
		ci, ok := ins.(ssa.CallInstruction)
		if !ok {
			return false
		}
		_, isGo := ins.(*ssa.Go)
		_, isDefer := ins.(*ssa.Defer)
		if (sa.When == "go") != isGo {
			return false
		}
		if isDefer != (sa.When == "defer") {
			return false
		}
		c := ci.Common()
		var names []string
		if f, _ := fr.resolveCallee(c); f != nil && !c.IsInvoke() {
			names = funcNames(f)
		} else {
			names = calleeNames(c)
			if k := fieldCallKey(c.Value); k != "" {
				names = append(names, k, "field."+k[strings.LastIndex(k[:strings.LastIndex(k, ".")], ".")+1:])
			}
		}
		for _, n := range names {
			if n == sa.Pattern || shortKey(n) == sa.Pattern {
				return true
			}
		}
		return false
	case "return":
		_, ok := ins.(*ssa.Return)
		return ok
	case "recv":
		u, ok := ins.(*ssa.UnOp)
		if !ok || u.Op.String() != "<-" {
			return false
		}
		return sa.Pattern == "*" || fr.valueDescr(u.X) == sa.Pattern
	case "send":
		s, ok := ins.(*ssa.Send)
		if !ok {
			return false
		}
		return sa.Pattern == "*" || fr.valueDescr(s.Chan) == sa.Pattern
	case "select":
		_, ok := ins.(*ssa.Select)
		return ok && sa.Pattern == "*"
	case "store":
		s, ok := ins.(*ssa.Store)
		if !ok {
			return false
		}
		return fr.addrDescr(s.Addr) == sa.Pattern
	case "mapupdate":
		s, ok := ins.(*ssa.MapUpdate)
		if !ok {
			return false
		}
		return sa.Pattern == "*" || fr.valueDescr(s.Map) == sa.Pattern
	case "lookup":
		s, ok := ins.(*ssa.Lookup)
		if !ok {
			return false
		}
		return sa.Pattern == "*" || fr.valueDescr(s.X) == sa.Pattern
	}
	return false
}

// addrDescr describes a store target as Type.field for pattern matching.
func (fr *Frame) addrDescr(addr ssa.Value) string {
	switch a := addr.(type) {
	case *ssa.FieldAddr:
		st := a.X.Type().Underlying().(*types.Pointer).Elem()
		f := st.Underlying().(*types.Struct).Field(a.Field)
		return typeNameShort(st) + "." + f.Name()
	case *ssa.Global:
		return a.Pkg.Pkg.Name() + "." + a.Name()
	case *ssa.Alloc:
		if a.Comment != "" {
			return "var." + a.Comment
		}
	case *ssa.FreeVar:
		return "var." + a.Name()
	}
	return ""
}

// valueDescr describes a value read from a field, e.g. "Environment.stateChangedCh".
func (fr *Frame) valueDescr(v ssa.Value) string {
	switch x := v.(type) {
	case *ssa.UnOp:
		return fr.addrDescr(x.X)
	case *ssa.Parameter:
		return x.Name()
	case *ssa.FreeVar:
		return x.Name()
	}
	return fr.debugName(v)
}

func (fr *Frame) runSites(ins ssa.Instruction, when string, pc string, st *State, res []string) string {
	vc := fr.vc
	// the site clauses of the function under verification also apply to what small helpers executed symbolically inside it
	// do (moving a call into a helper does not make it disappear); named locals are then those of the helper
	top := fr
	if !fr.top {
		// only call sites: a helper's stores to objects it has just allocated are not stores of the function's own text
		if !fr.inlinedHelper || when == "return" || (!fr.extracted && when != "call" && when != "aftercall") {
			return pc
		}
		top = fr.topFrame()
	}
	if top.c == nil || len(top.c.Sites) == 0 {
		return pc
	}
	for _, sa := range top.c.Sites {
		w := sa.When
		if w == "go" || w == "defer" {
			w = "call"
		}
		if w != when {
			// recv/send/store/mapupdate/return sites are triggered explicitly with their own 'when'
			continue
		}
		if !fr.siteMatches(sa, ins) {
			continue
		}
		env := vc.newEnv(top.c.PkgPath, st)
		env.old = top.entry
		top.bindParams(env)
		for g := range vc.ghostT {
			env.vars[g] = tv{t: vc.stGet0(st, "$g."+g), ty: vc.ghostT[g]}
		}
		// named local values (by debug name) visible at this instruction
		if fr.extracted {
			// code moved into a new function: its own names first, then what was visible at the call site(s)
			own := fr.bindOwn(env)
			set := func(name string, t tv) {
				env.vars[name] = t
				delete(env.lazy, name)
				own[name] = true
			}
			for name, v := range fr.namedValuesAtInstr(ins) {
				set(name, tv{t: fr.v1(v), ty: v.Type()})
				if old, ok := fr.alias[name]; ok {
					set(old, tv{t: fr.v1(v), ty: v.Type()})
				}
			}
			for _, l := range fr.loops {
				if !l.blocks[ins.Block()] {
					continue
				}
				for _, phi := range l.phis {
					if phi.Comment != "" && phi.Comment != "rangeindex" && instrDominates(phi, ins) {
						if _, later := fr.namedValuesAtInstr(ins)[phi.Comment]; !later {
							set(phi.Comment, tv{t: fr.v1(phi), ty: phi.Type()})
							if old, ok := fr.alias[phi.Comment]; ok {
								set(old, tv{t: fr.v1(phi), ty: phi.Type()})
							}
						}
					}
				}
			}
			fr.callerNames(env, own)
		}
		for name, v := range fr.namedValuesAtInstr(ins) {
			if _, shadow := env.vars[name]; !shadow {
				if _, lz := env.lazy[name]; !lz {
					env.vars[name] = tv{t: fr.v1(v), ty: v.Type()}
				}
			}
			if old, ok := fr.alias[name]; ok {
				if _, shadow := env.vars[old]; !shadow {
					if _, lz := env.lazy[old]; !lz {
						env.vars[old] = tv{t: fr.v1(v), ty: v.Type()}
					}
				}
			}
		}
		// range indices of the enclosing loops: #i (innermost), #i<ordinal>
		var inner *loopInfo
		for _, l := range fr.loops {
			if !l.blocks[ins.Block()] {
				continue
			}
			for _, phi := range l.phis {
				if phi.Comment == "rangeindex" {
					env.hash[fmt.Sprintf("i%d", l.ordinal)] = tv{t: fr.v1(phi), ty: tInt}
					if inner == nil || len(l.blocks) < len(inner.blocks) {
						inner = l
						env.hash["i"] = tv{t: fr.v1(phi), ty: tInt}
					}
				}
			}
		}
		if ci, ok := ins.(ssa.CallInstruction); ok {
			c := ci.Common()
			at := ""
			if len(c.Args) > 0 {
				at = typeNameShort(c.Args[0].Type())
			}
			env.vars["argtype0"] = tv{t: vc.d.strLit(at), ty: tString}
			// source-level name of the first argument when it is a variable (phi / parameter), e.g. which slice is appended to
			an := ""
			if len(c.Args) > 0 {
				a0 := c.Args[0]
				if ct, ok := a0.(*ssa.ChangeType); ok {
					// a conversion between named types of the same underlying type keeps the variable it was applied to
					a0 = ct.X
				}
				switch a := a0.(type) {
				case *ssa.Phi:
					an = a.Comment
				case *ssa.Parameter:
					an = a.Name()
				default:
					an = fr.debugName(a0)
					if an == "" {
						if u, ok := a0.(*ssa.UnOp); ok && u.Op == token.MUL {
							// the current value of an address-taken local or of a captured variable
							switch x := u.X.(type) {
							case *ssa.Alloc:
								an = x.Comment
							case *ssa.FreeVar:
								an = x.Name()
							}
						}
					}
				}
			}
			env.vars["argname0"] = tv{t: vc.d.strLit(fr.aliased(an)), ty: tString}
			// which function literal is passed (by structural name), for higher-order calls such as Filtered(func...)
			for i, a := range c.Args {
				cn := ""
				v := a
				if ct, ok := v.(*ssa.ChangeType); ok {
					v = ct.X
				}
				if mc, ok := v.(*ssa.MakeClosure); ok {
					cn = shortKey(vc.g.litName(mc.Fn.(*ssa.Function), fr.fn))
				} else if mc, ok := fr.closures[v]; ok {
					cn = shortKey(vc.g.litName(mc.Fn.(*ssa.Function), fr.fn))
				} else if f, ok := v.(*ssa.Function); ok {
					cn = shortKey(vc.g.litName(f, fr.fn))
				}
				env.vars[fmt.Sprintf("argfunc%d", i)] = tv{t: vc.d.strLit(cn), ty: tString}
			}
			if c.IsInvoke() {
				env.vars["recv"] = tv{t: fr.v1(c.Value), ty: c.Value.Type()}
			}
			for i, a := range c.Args {
				env.vars[fmt.Sprintf("arg%d", i)] = tv{t: fr.v1(a), ty: a.Type()}
				// argNu: the value that was boxed into an interface-typed argument, with its static type
				if mi, ok := a.(*ssa.MakeInterface); ok {
					if _, seen := fr.vals[mi.X]; seen || isConstOrGlobal(mi.X) {
						env.vars[fmt.Sprintf("arg%du", i)] = tv{t: fr.v1(mi.X), ty: mi.X.Type()}
					}
				}
			}
			// name of the struct field whose address is the first argument (e.g. which mutex is being locked)
			rf := ""
			if len(c.Args) > 0 {
				if fa, ok := c.Args[0].(*ssa.FieldAddr); ok {
					rf = fa.X.Type().Underlying().(*types.Pointer).Elem().Underlying().(*types.Struct).Field(fa.Field).Name()
				}
			}
			env.vars["recvfield"] = tv{t: vc.d.strLit(rf), ty: tString}
			if v, ok := ins.(ssa.Value); ok && when == "aftercall" {
				rv := fr.val(v)
				if tup, ok := v.Type().(*types.Tuple); ok {
					for i := 0; i < tup.Len() && i < len(rv); i++ {
						env.vars[fmt.Sprintf("result%d", i)] = tv{t: rv[i], ty: tup.At(i).Type()}
					}
					if len(rv) > 0 && tup.Len() > 0 {
						env.vars["result"] = tv{t: rv[0], ty: tup.At(0).Type()}
					}
				} else if len(rv) == 1 {
					env.vars["result"] = tv{t: rv[0], ty: v.Type()}
				}
			}
		}
		switch x := ins.(type) {
		case *ssa.Store:
			env.vars["value"] = tv{t: fr.v1(x.Val), ty: x.Val.Type()}
			if fa, ok := x.Addr.(*ssa.FieldAddr); ok {
				env.vars["target"] = tv{t: fr.v1(fa.X), ty: fa.X.Type()}
			}
		case *ssa.MapUpdate:
			env.vars["key"] = tv{t: fr.v1(x.Key), ty: x.Key.Type()}
			env.vars["value"] = tv{t: fr.v1(x.Value), ty: x.Value.Type()}
			env.vars["target"] = tv{t: fr.v1(x.Map), ty: x.Map.Type()}
		case *ssa.UnOp:
			if x.Op.String() == "<-" {
				if rv, ok := fr.vals[x]; ok && len(rv) > 0 {
					rt := x.Type()
					if tup, ok := rt.(*types.Tuple); ok {
						rt = tup.At(0).Type()
					}
					env.vars["value"] = tv{t: rv[0], ty: rt}
				}
			}
		case *ssa.Lookup:
			if li := fr.lookupIn; li != nil {
				env.vars["key"] = tv{t: li.key, ty: li.keyT}
				env.vars["result0"] = tv{t: li.val, ty: li.valT}
				env.vars["result"] = tv{t: li.val, ty: li.valT}
				env.vars["result1"] = tv{t: li.ok, ty: tBool}
			}
		case *ssa.Select:
			// index: the case that fired (-1: default); valueK: what the K-th receive case (in source order) received
			if rv, ok := fr.vals[x]; ok && len(rv) >= 2 {
				env.vars["index"] = tv{t: rv[0], ty: tInt}
				k, slot := 0, 2
				for _, sst := range x.States {
					if sst.Dir == types.RecvOnly {
						if slot < len(rv) {
							env.vars[fmt.Sprintf("value%d", k)] = tv{t: rv[slot], ty: sst.Chan.Type().Underlying().(*types.Chan).Elem()}
						}
						slot++
					}
					k++
				}
			}
		case *ssa.Send:
			env.vars["value"] = tv{t: fr.v1(x.X), ty: x.X.Type()}
			env.vars["channel"] = tv{t: fr.v1(x.Chan), ty: x.Chan.Type()}
		case *ssa.Return:
			fr.bindReturnValues(env, x)
		}
		guard := "true"
		if sa.Cond != nil {
			t, err := env.boolExpr(sa.Cond)
			if err != nil {
				vc.failed = fmt.Errorf("%s: site %q: %v", vc.name, sa.Src, err)
				return pc
			}
			guard = t
		}
		top.callOrd["site:"+sa.Src]++
		occ := top.callOrd["site:"+sa.Src]
		for ai, a := range sa.Acts {
			// refresh ghost bindings
			for g := range vc.ghostT {
				env.vars[g] = tv{t: vc.stGet0(st, "$g."+g), ty: vc.ghostT[g]}
			}
			switch a.Kind {
			case "assert":
				t, err := env.boolExpr(a.E)
				if err != nil {
					// the assertion cannot even be stated at this site (e.g. the call now has operands of another type):
					// the site no longer has the shape the contract requires, which is a failure of this obligation
					vc.addObl(&Obligation{Name: fmt.Sprintf("site%d.%d/%d:%s %s", sa.Ordinal, ai+1, occ, sa.When, sa.Pattern), Kind: "site", PC: and(pc, guard), Goal: "false",
						Src: a.Src + "  [not expressible at this site: " + err.Error() + "]"})
					continue
				}
				vc.addObl(&Obligation{Name: fmt.Sprintf("site%d.%d/%d:%s %s", sa.Ordinal, ai+1, occ, sa.When, sa.Pattern), Kind: "site", PC: and(pc, guard), Goal: t, Src: a.Src})
				pc = fr.assume(pc, implies(guard, t))
			case "havoc":
				tg, err := env.modTargets(a.E)
				if err != nil {
					vc.failed = fmt.Errorf("%s: site %q: %v", vc.name, sa.Src, err)
					return pc
				}
				for _, t := range tg {
					fr.havocTarget(st, t)
				}
				vc.note("site havoc in %s: %s", vc.name, a.Src)
			case "assume":
				t, err := env.assumeExpr(a.E)
				if err != nil {
					vc.failed = fmt.Errorf("%s: site %q: %v", vc.name, sa.Src, err)
					return pc
				}
				vc.note("site assumption in %s: %s", vc.name, a.Src)
				pc = fr.assume(pc, implies(guard, t))
			case "set":
				t, err := env.expr(a.E)
				if err != nil {
					vc.failed = fmt.Errorf("%s: site %q: %v", vc.name, sa.Src, err)
					return pc
				}
				if _, ok := vc.ghostT[a.Var]; !ok {
					vc.failed = fmt.Errorf("%s: site %q assigns undeclared ghost %s", vc.name, sa.Src, a.Var)
					return pc
				}
				k := "$g." + a.Var
				nv := t.t
				if a.Idx != nil {
					it, err := env.expr(a.Idx)
					if err != nil {
						vc.failed = fmt.Errorf("%s: site %q: %v", vc.name, sa.Src, err)
						return pc
					}
					nv = fmt.Sprintf("(store %s %s %s)", vc.stGet0(st, k), asPtr(it).t, t.t)
				}
				vc.stSet(st, k, ite(guard, nv, vc.stGet0(st, k)))
			}
		}
	}
	return pc
}

// bindOwn binds the parameters and address-taken locals of the frame of an extracted function, overriding what the
// function under verification bound under the same names; returns the set of names bound.
func (fr *Frame) bindOwn(env *SpecEnv) map[string]bool {
	own := map[string]bool{}
	for _, prm := range fr.fn.Params {
		if _, ok := fr.vals[prm]; ok {
			for _, n := range []string{prm.Name(), fr.alias[prm.Name()]} {
				if n != "" {
					env.vars[n] = tv{t: fr.v1(prm), ty: prm.Type()}
					delete(env.lazy, n)
					own[n] = true
				}
			}
		}
	}
	for _, b := range fr.fn.Blocks {
		for _, ins := range b.Instrs {
			a, ok := ins.(*ssa.Alloc)
			if !ok || a.Comment == "" {
				continue
			}
			var l *Loc
			if x, ok := fr.locs[a]; ok {
				l = x
			} else if _, ok := fr.vals[a]; ok {
				l = fr.vc.locOfPtr(fr.v1(a), a.Type())
			} else {
				continue
			}
			for _, n := range []string{a.Comment, fr.alias[a.Comment]} {
				if n != "" {
					delete(env.vars, n)
					env.lazy[n] = l
					own[n] = true
				}
			}
		}
	}
	return own
}

func (fr *Frame) bindParams(env *SpecEnv) {
	// named address-taken locals (variables captured by closures, or whose address is taken)
	for _, b := range fr.fn.Blocks {
		for _, ins := range b.Instrs {
			a, ok := ins.(*ssa.Alloc)
			if !ok || a.Comment == "" {
				continue
			}
			if l, ok := fr.locs[a]; ok {
				env.lazy[a.Comment] = l
				if old, ok := fr.alias[a.Comment]; ok {
					env.lazy[old] = l
				}
			} else if _, ok := fr.vals[a]; ok {
				env.lazy[a.Comment] = fr.vc.locOfPtr(fr.v1(a), a.Type())
				if old, ok := fr.alias[a.Comment]; ok {
					env.lazy[old] = env.lazy[a.Comment]
				}
			}
		}
	}
	for _, p := range fr.fn.Params {
		env.vars[p.Name()] = tv{t: fr.v1(p), ty: p.Type()}
	}
	for _, fv := range fr.fn.FreeVars {
		// captured variables are pointers to cells: expose the cell content under the variable's name
		if pt, ok := fv.Type().Underlying().(*types.Pointer); ok {
			l := fr.locOf(fv)
			_ = pt
			env.lazy[fv.Name()] = l
			continue
		}
		env.vars[fv.Name()] = tv{t: fr.v1(fv), ty: fv.Type()}
	}
}

func (fr *Frame) bindReturnValues(env *SpecEnv, r *ssa.Return) {
	sig := fr.fn.Signature.Results()
	for i, rv := range r.Results {
		t := tv{t: fr.v1(rv), ty: sig.At(i).Type()}
		if n := sig.At(i).Name(); n != "" && n != "_" {
			env.vars[n] = t
		}
		env.vars[fmt.Sprintf("result%d", i)] = t
		if i == 0 {
			env.vars["result"] = t
		}
	}
}

func sortedSet(m map[string]bool) []string {
	var out []string
	for k := range m {
		out = append(out, k)
	}
	sort.Strings(out)
	return out
}

func mentionsIdent(e Expr, names map[string]bool) bool {
	switch n := e.(type) {
	case *EIdent:
		return names[n.Name]
	case *EUnary:
		return mentionsIdent(n.X, names)
	case *EBinary:
		return mentionsIdent(n.X, names) || mentionsIdent(n.Y, names)
	case *ECall:
		if mentionsIdent(n.Fun, names) {
			return true
		}
		for _, a := range n.Args {
			if mentionsIdent(a, names) {
				return true
			}
		}
	case *EIndex:
		return mentionsIdent(n.X, names) || mentionsIdent(n.I, names)
	case *ESlice:
		return mentionsIdent(n.X, names) || (n.Lo != nil && mentionsIdent(n.Lo, names)) || (n.Hi != nil && mentionsIdent(n.Hi, names))
	case *ESel:
		return mentionsIdent(n.X, names)
	case *ETypeAssert:
		return mentionsIdent(n.X, names)
	case *EIs:
		return mentionsIdent(n.X, names)
	case *EQuant:
		return mentionsIdent(n.Body, names)
	case *EIte:
		return mentionsIdent(n.C, names) || mentionsIdent(n.A, names) || mentionsIdent(n.B, names)
	case *ELet:
		return mentionsIdent(n.Val, names) || mentionsIdent(n.Body, names)
	case *EOld:
		return mentionsIdent(n.X, names)
	}
	return false
}

type savedCell struct {
	loc *Loc
	val string
}

// saveCapturedCells: the cells of variables captured by this closure (its free variables) are reachable only through
// closures that capture them. A callee that is not handed any function value cannot write them, so their content
// survives the havoc of an unknown call. (Not applied to go/select/receive: concurrent closures may run there.)
func (fr *Frame) saveCapturedCells(c *ssa.CallCommon, st *State) []savedCell {
	if !fr.top {
		// a call made by an inlined helper: what it cannot reach of the function under verification stays as it is
		if fr.inlinedHelper {
			return fr.topFrame().saveCapturedCells(c, st)
		}
		return nil
	}
	for _, a := range c.Args {
		switch a.Type().Underlying().(type) {
		case *types.Signature, *types.Interface:
			if _, isSig := a.Type().Underlying().(*types.Signature); isSig {
				return nil
			}
			if mi, ok := a.(*ssa.MakeInterface); ok {
				if _, isSig := mi.X.Type().Underlying().(*types.Signature); isSig {
					return nil
				}
			}
		}
	}
	var out []savedCell
	for _, fv := range fr.fn.FreeVars {
		pt, ok := fv.Type().Underlying().(*types.Pointer)
		if !ok {
			continue
		}
		if _, isStruct := isStructT(pt.Elem()); isStruct {
			continue
		}
		if _, isArr := pt.Elem().Underlying().(*types.Array); isArr {
			continue
		}
		l := fr.locOf(fv)
		if l.opaque || l.heap == "" {
			continue
		}
		out = append(out, savedCell{l, fr.vc.define("cap", fr.vc.d.sortOf(pt.Elem()), fr.vc.loadLoc(st, l))})
	}
	return out
}

func (fr *Frame) restoreCells(st *State, saved []savedCell) {
	for _, s := range saved {
		fr.vc.storeLoc(st, s.loc, s.val)
	}
	if len(saved) > 0 {
		fr.vc.note("variables captured by a closure keep their value across calls that receive no function value")
	}
}

func (fr *Frame) topFrame() *Frame {
	f := fr
	for f.parent != nil {
		f = f.parent
	}
	return f
}

// debugName: the source variable an SSA value is bound to (via go/ssa debug refs), "" if none or ambiguous.
func (fr *Frame) debugName(v ssa.Value) string {
	name := ""
	for _, b := range fr.fn.Blocks {
		for _, ins := range b.Instrs {
			if dr, ok := ins.(*ssa.DebugRef); ok && !dr.IsAddr && dr.X == v && dr.Object() != nil {
				if name != "" && name != dr.Object().Name() {
					return ""
				}
				name = dr.Object().Name()
			}
		}
	}
	return name
}

// namedValuesAtInstr: source variable name -> the latest SSA value bound to it that dominates ins.
func (fr *Frame) namedValuesAtInstr(ins ssa.Instruction) map[string]ssa.Value {
	best := map[string]ssa.Instruction{}
	out := map[string]ssa.Value{}
	for _, b := range fr.fn.Blocks {
		for _, x := range b.Instrs {
			dr, ok := x.(*ssa.DebugRef)
			if !ok || dr.IsAddr || dr.Object() == nil {
				continue
			}
			if _, isVar := dr.Object().(*types.Var); !isVar {
				continue
			}
			def, ok := dr.X.(ssa.Instruction)
			if !ok {
				continue
			}
			if _, seen := fr.vals[dr.X]; !seen {
				continue
			}
			if def.Block() == nil || !instrDominates(def, ins) {
				continue
			}
			name := dr.Object().Name()
			if cur, ok := best[name]; !ok || instrDominates(cur, def) {
				best[name] = def
				out[name] = dr.X
			}
		}
	}
	return out
}

// havocInterference: havoc of the whole heap at a point where other goroutines / unknown code may have run, keeping
// what nobody else can write: private arrays of this invocation and read-only captured variables.
func (fr *Frame) havocInterference(st *State) {
	top := fr.topFrame()
	saved := fr.saveStableCells(st)
	fr.vc.havocAllKeeping(st, top.privHeaps)
	fr.restoreCells(st, saved)
}

// stableCells: address-taken locals of this function that are only captured by closures which never assign them, and
// free variables of this closure never assigned by it or its nested closures: nobody but the owner's straight-line code
// (tracked symbolically) writes them, so they survive interference.
func (fr *Frame) saveStableCells(st *State) []savedCell {
	if !fr.top {
		if fr.inlinedHelper {
			return fr.topFrame().saveStableCells(st)
		}
		return nil
	}
	var out []savedCell
	add := func(l *Loc, t types.Type) {
		if l == nil || l.opaque || l.heap == "" || l.local != "" {
			return
		}
		if _, isStruct := isStructT(t); isStruct {
			return
		}
		if _, isArr := t.Underlying().(*types.Array); isArr {
			return
		}
		out = append(out, savedCell{l, fr.vc.define("cap", fr.vc.d.sortOf(t), fr.vc.loadLoc(st, l))})
	}
	for _, b := range fr.fn.Blocks {
		for _, ins := range b.Instrs {
			a, ok := ins.(*ssa.Alloc)
			if !ok || fr.privAlloc[a] {
				continue
			}
			if _, done := fr.vals[a]; !done {
				continue
			}
			if readOnlyCaptured(a) {
				add(fr.locOf(a), a.Type().Underlying().(*types.Pointer).Elem())
			}
		}
	}
	for _, fv := range fr.fn.FreeVars {
		pt, ok := fv.Type().Underlying().(*types.Pointer)
		if !ok {
			continue
		}
		if !closureWrites(fr.fn, fv) {
			// also requires that the defining function / sibling closures do not write it concurrently: checked for the
			// binding alloc when available
			add(fr.locOf(fv), pt.Elem())
		}
	}
	return out
}

// readOnlyCaptured: alloc a is used only by loads, stores (by the owner) and as a closure binding, and no capturing
// closure stores to it.
func readOnlyCaptured(a *ssa.Alloc) bool {
	refs := a.Referrers()
	if refs == nil {
		return false
	}
	captured := false
	for _, r := range *refs {
		switch x := r.(type) {
		case *ssa.Store:
			if x.Val == ssa.Value(a) {
				return false
			}
		case *ssa.UnOp, *ssa.DebugRef:
		case *ssa.MakeClosure:
			captured = true
			fn := x.Fn.(*ssa.Function)
			for i, bnd := range x.Bindings {
				if bnd == ssa.Value(a) && closureWrites(fn, fn.FreeVars[i]) {
					return false
				}
			}
		default:
			return false
		}
	}
	return captured
}

// closureWrites: does fn (or a closure nested in it that captures the same variable) store to free variable fv?
func closureWrites(fn *ssa.Function, fv *ssa.FreeVar) bool {
	refs := fv.Referrers()
	if refs == nil {
		return false
	}
	for _, r := range *refs {
		switch x := r.(type) {
		case *ssa.Store:
			if x.Addr == ssa.Value(fv) {
				return true
			}
			if x.Val == ssa.Value(fv) {
				return true
			}
		case *ssa.UnOp, *ssa.DebugRef:
		case *ssa.MakeClosure:
			sub := x.Fn.(*ssa.Function)
			for i, bnd := range x.Bindings {
				if bnd == ssa.Value(fv) && closureWrites(sub, sub.FreeVars[i]) {
					return true
				}
			}
		default:
			return true
		}
	}
	return false
}

func isConstOrGlobal(v ssa.Value) bool {
	switch v.(type) {
	case *ssa.Const, *ssa.Global, *ssa.Function:
		return true
	}
	return false
}

// instantiateSig: a contract written on a generic function (or on a method of a generic type) is applied at a call of an
// instance with the type parameters bound to the instance's type arguments: the formals take the instance's types.
func instantiateSig(si *sigInfo, callee *ssa.Function, c *ssa.CallCommon) (*sigInfo, map[string]types.Type) {
	var sig *types.Signature
	var recvT types.Type
	bind := map[string]types.Type{}
	bindNamed := func(t types.Type) {
		if p, ok := t.(*types.Pointer); ok {
			t = p.Elem()
		}
		if n, ok := t.(*types.Named); ok && n.TypeArgs().Len() > 0 && n.Origin().TypeParams().Len() == n.TypeArgs().Len() {
			for i := 0; i < n.TypeArgs().Len(); i++ {
				bind[n.Origin().TypeParams().At(i).Obj().Name()] = n.TypeArgs().At(i)
			}
		}
	}
	switch {
	case callee != nil && len(callee.TypeArgs()) > 0:
		sig = callee.Signature
		if o := callee.Origin(); o != nil {
			for i := 0; i < o.TypeParams().Len(); i++ {
				if i < len(callee.TypeArgs()) {
					bind[o.TypeParams().At(i).Obj().Name()] = callee.TypeArgs()[i]
				}
			}
		}
		if sig.Recv() != nil {
			recvT = sig.Recv().Type()
			bindNamed(recvT)
		}
	case callee != nil && callee.Signature.Recv() != nil:
		// method of an instantiated generic type reached without explicit function type arguments
		sig = callee.Signature
		recvT = sig.Recv().Type()
		bindNamed(recvT)
	case c != nil && c.IsInvoke():
		recvT = c.Value.Type()
		bindNamed(recvT)
		sig = c.Signature()
	}
	if len(bind) == 0 || sig == nil {
		return si, nil
	}
	identity := true
	for k, v := range bind {
		if tp, ok := v.(*types.TypeParam); !ok || tp.Obj().Name() != k {
			identity = false
		}
	}
	if identity {
		return si, bind
	}
	out := &sigInfo{}
	*out = *si
	out.params = append([]paramInfo{}, si.params...)
	out.results = append([]paramInfo{}, si.results...)
	off := 0
	if recvT != nil && len(out.params) == sig.Params().Len()+1 {
		out.params[0].ty = recvT
		off = 1
	}
	if len(out.params) == sig.Params().Len()+off {
		for i := 0; i < sig.Params().Len(); i++ {
			out.params[i+off].ty = sig.Params().At(i).Type()
		}
	}
	if len(out.results) == sig.Results().Len() {
		for i := 0; i < sig.Results().Len(); i++ {
			out.results[i].ty = sig.Results().At(i).Type()
		}
	}
	return out, bind
}

// bindFreeVarsEnv: the contract of a closure may mention the variables it captures; at a call of the closure they are
// bound to what the MakeClosure instruction captured (cells for variables captured by reference).
func (fr *Frame) bindFreeVarsEnv(env *SpecEnv, mc *ssa.MakeClosure) {
	fn, ok := mc.Fn.(*ssa.Function)
	if !ok {
		return
	}
	owner := fr
	for owner != nil {
		if _, ok := owner.vals[mc]; ok {
			break
		}
		owner = owner.parent
	}
	if owner == nil {
		owner = fr
	}
	for i, fv := range fn.FreeVars {
		if i >= len(mc.Bindings) {
			break
		}
		b := mc.Bindings[i]
		if _, shadow := env.vars[fv.Name()]; shadow {
			continue
		}
		if l, ok := owner.locs[b]; ok {
			env.lazy[fv.Name()] = l
			continue
		}
		if _, seen := owner.vals[b]; !seen {
			continue
		}
		if _, isPtr := fv.Type().Underlying().(*types.Pointer); isPtr {
			env.lazy[fv.Name()] = fr.vc.locOfPtr(owner.v1(b), fv.Type())
			continue
		}
		env.vars[fv.Name()] = tv{t: owner.v1(b), ty: fv.Type()}
	}
}
