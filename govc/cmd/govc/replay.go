package main

// Replay of solver models against the real code.
//
// When a failed obligation comes with a model (status sat), the model's values for the quantified variables of a lemma -
// or for the parameters of a pure function whose parameters are all scalars - are turned into an in-package Go test that
// evaluates the violated clause on the REAL functions of /repo's current tree (go test -overlay: nothing is written to
// the repository). If that test fails, the counterexample is confirmed and the VIOLATION line carries no
// "no-failing-input-found". Everything outside these two classes (heap-shaped inputs, ghost state, quantified clauses,
// strings in uninterpreted mode) has no replay: the violation is still reported, with the solver's output in the replay file.

import (
	"encoding/json"
	"fmt"
	"go/types"
	"os"
	"os/exec"
	"path/filepath"
	"regexp"
	"sort"
	"strings"
	"time"

	"golang.org/x/tools/go/ssa"
)

func typesNewPointer(t types.Type) types.Type { return types.NewPointer(t) }

// modelValues parses (define-fun name () Sort value) entries of a solver model; integers and booleans only.
func modelValues(model string) map[string]string {
	out := map[string]string{}
	re := regexp.MustCompile(`\(define-fun\s+(\|[^|]*\||[^\s()]+)\s+\(\)\s+(Int|Bool)\s+(\(-\s*\d+\)|-?\d+|true|false)\s*\)`)
	for _, m := range re.FindAllStringSubmatch(model, -1) {
		n := strings.Trim(m[1], "|")
		v := m[3]
		if strings.HasPrefix(v, "(") {
			v = "-" + strings.TrimSpace(strings.Trim(v, "()-"))
		}
		out[n] = v
	}
	return out
}

type goPrinter struct {
	g       *Gen
	pkgPath string
	pkg     *types.Package
	imports map[string]string // local name -> path
	subst   map[string]string // identifier -> Go text
	depth   int
	err     error
}

func (p *goPrinter) fail(format string, a ...interface{}) string {
	if p.err == nil {
		p.err = fmt.Errorf(format, a...)
	}
	return "false"
}

func (p *goPrinter) typ(t *TypeExpr) string {
	switch t.Kind {
	case "name":
		if t.Pkg != "" {
			p.usePkg(t.Pkg)
			return t.Pkg + "." + t.Name
		}
		return t.Name
	}
	return p.fail("type %s has no replay", t.String())
}

func (p *goPrinter) usePkg(name string) {
	if p.pkg == nil {
		return
	}
	for _, im := range p.pkg.Imports() {
		if im.Name() == name {
			p.imports[name] = im.Path()
		}
	}
}

// expr prints a contract expression as a Go expression over the real package (quantifier-free, scalar fragment).
func (p *goPrinter) expr(e Expr) string {
	if p.err != nil {
		return "false"
	}
	switch x := e.(type) {
	case *EIdent:
		if s, ok := p.subst[x.Name]; ok {
			return s
		}
		return x.Name
	case *EInt:
		return x.Val
	case *EBool:
		return fmt.Sprint(x.Val)
	case *EStr:
		return fmt.Sprintf("%q", x.Val)
	case *EUnary:
		return "(" + x.Op + p.expr(x.X) + ")"
	case *EBinary:
		a, b := p.expr(x.X), p.expr(x.Y)
		switch x.Op {
		case "==>":
			return "(!(" + a + ") || (" + b + "))"
		case "<==>":
			return "((" + a + ") == (" + b + "))"
		}
		return "(" + a + " " + x.Op + " " + b + ")"
	case *EIte:
		return "func() " + "interface{}" + " { if " + p.expr(x.C) + " { return " + p.expr(x.A) + " }; return " + p.expr(x.B) + " }()"
	case *ESel:
		if id, ok := x.X.(*EIdent); ok {
			if _, bound := p.subst[id.Name]; !bound && p.pkg != nil {
				for _, im := range p.pkg.Imports() {
					if im.Name() == id.Name {
						p.usePkg(id.Name)
						return id.Name + "." + x.Sel
					}
				}
			}
		}
		return p.expr(x.X) + "." + x.Sel
	case *ECall:
		// ghost function with a body: unfold it (bounded); real function or method: call it
		if id, ok := x.Fun.(*EIdent); ok {
			if gf := p.g.ghosts[p.pkgPath+"."+id.Name]; gf != nil {
				if gf.Body == nil || gf.Rec || gf.Fuel || p.depth > 8 || len(gf.Params) != len(x.Args) {
					return p.fail("ghost function %s has no replay", id.Name)
				}
				saved := p.subst
				ns := map[string]string{}
				for k, v := range saved {
					ns[k] = v
				}
				for i, prm := range gf.Params {
					ns[prm.Name] = "(" + p.expr(x.Args[i]) + ")"
				}
				p.subst = ns
				p.depth++
				s := p.expr(gf.Body)
				p.depth--
				p.subst = saved
				return "(" + s + ")"
			}
			switch id.Name {
			case "len":
				if len(x.Args) == 1 {
					return "len(" + p.expr(x.Args[0]) + ")"
				}
			case "old", "fresh", "disjoint", "iface", "deref", "dom", "vals":
				return p.fail("%s(...) has no replay", id.Name)
			}
		}
		var args []string
		for _, a := range x.Args {
			args = append(args, p.expr(a))
		}
		return p.expr(x.Fun) + "(" + strings.Join(args, ", ") + ")"
	}
	return p.fail("expression %s has no replay", e.String())
}

func isScalarSort(s string) bool { return s == "Int" || s == "Bool" }

func goLiteral(goType, val string, isBool bool) string {
	if isBool {
		return val
	}
	return fmt.Sprintf("%s(%s)", goType, val)
}

// runReplayTest writes the test source to the scratch directory, overlays it into the package directory and runs it.
// Returns (the test failed as a confirmed counterexample, output).
func runReplayTest(g *Gen, pkgPath, src, scratch string) (bool, string) {
	p := g.byPath[pkgPath]
	if p == nil || len(p.GoFiles) == 0 {
		return false, "package not loaded: " + pkgPath
	}
	dir := filepath.Dir(p.GoFiles[0])
	tf := filepath.Join(scratch, fmt.Sprintf("govc_replay_%d_test.go", time.Now().UnixNano()))
	if err := os.WriteFile(tf, []byte(src), 0o644); err != nil {
		return false, err.Error()
	}
	ov := filepath.Join(scratch, fmt.Sprintf("ov_%d.json", time.Now().UnixNano()))
	b, _ := json.Marshal(map[string]interface{}{"Replace": map[string]string{filepath.Join(dir, "zz_govc_replay_test.go"): tf}})
	_ = os.WriteFile(ov, b, 0o644)
	cmd := exec.Command("go", "test", "-overlay", ov, "-vet=off", "-timeout", "60s", "-count=1", "-run", "^TestGovcReplay$", ".")
	cmd.Dir = dir
	cmd.Env = append(os.Environ(), "GOFLAGS=-mod=mod", "GOPROXY=off", "GOSUMDB=off", "GOTOOLCHAIN=local")
	out, err := cmd.CombinedOutput()
	text := string(out)
	if len(text) > 4000 {
		text = text[:4000]
	}
	confirmed := err != nil && strings.Contains(text, "GOVC-COUNTEREXAMPLE-CONFIRMED")
	return confirmed, "replay test (run with go test -overlay in " + dir + "):\n" + src + "\noutput:\n" + text
}

// tryReplay attempts to replay a solver model against the real code. Returns (confirmed, output).
func tryReplay(g *Gen, o *Obligation, r *SolveResult, scratch string) (bool, string) {
	vals := modelValues(r.Model)
	if o.Kind == "lemma" && strings.HasPrefix(o.Func, "lemma ") {
		name := strings.TrimPrefix(o.Func, "lemma ")
		for _, lm := range g.lemmas {
			if lm.Name == name && lm.IndVar == "" {
				return replayLemma(g, lm, vals, scratch)
			}
		}
		return false, "no replay for this lemma (induction)"
	}
	if o.Kind == "ensures" && o.fc != nil && o.clause != nil {
		return replayPureEnsures(g, o, vals, scratch)
	}
	return false, "no replay for this kind of obligation (only lemmas over scalars and postconditions of pure functions with scalar parameters are replayed)"
}

func replayLemma(g *Gen, lm *Lemma, vals map[string]string, scratch string) (bool, string) {
	q, ok := lm.E.(*EQuant)
	if !ok || !q.Forall {
		return false, "lemma is not a universally quantified formula"
	}
	pkg := g.byPath[lm.PkgPath]
	if pkg == nil {
		return false, "package not loaded"
	}
	pr := &goPrinter{g: g, pkgPath: lm.PkgPath, pkg: pkg.Types, imports: map[string]string{}, subst: map[string]string{}}
	var decls, shown []string
	for _, qv := range q.Vars {
		v, ok := vals[strings.Trim(sym("sk."+qv.Name), "|")]
		if !ok {
			return false, "the model gives no value for " + qv.Name
		}
		gt := pr.typ(qv.T)
		isBool := v == "true" || v == "false"
		decls = append(decls, fmt.Sprintf("\tvar %s %s = %s", qv.Name, gt, goLiteral(gt, v, isBool)))
		shown = append(shown, fmt.Sprintf("%s=%s", qv.Name, v))
	}
	body := pr.expr(q.Body)
	if pr.err != nil {
		return false, "no replay: " + pr.err.Error()
	}
	return runReplayTest(g, lm.PkgPath, replaySource(pkg.Types.Name(), pr.imports, decls, body, "lemma "+lm.Name+": "+lm.Src, strings.Join(shown, " ")), scratch)
}

func replaySource(pkgName string, imports map[string]string, decls []string, cond, what, shown string) string {
	var b strings.Builder
	fmt.Fprintf(&b, "package %s\n\nimport (\n\t\"testing\"\n", pkgName)
	var ks []string
	for k := range imports {
		ks = append(ks, k)
	}
	sort.Strings(ks)
	for _, k := range ks {
		fmt.Fprintf(&b, "\t%s %q\n", k, imports[k])
	}
	fmt.Fprintf(&b, ")\n\n// generated by govc from a solver model: %s\nfunc TestGovcReplay(t *testing.T) {\n", strings.ReplaceAll(what, "\n", " "))
	for _, d := range decls {
		b.WriteString(d + "\n")
	}
	fmt.Fprintf(&b, "\tif !(%s) {\n\t\tt.Fatalf(\"GOVC-COUNTEREXAMPLE-CONFIRMED: the clause is false on the real code for %s\")\n\t}\n}\n", cond, shown)
	return b.String()
}

// replayPureEnsures: postcondition of a pure function (or method) all of whose parameters, receiver included, are scalars:
// the model's parameter values are passed to the real function and the clause is evaluated on its result.
func replayPureEnsures(g *Gen, o *Obligation, vals map[string]string, scratch string) (bool, string) {
	fc := o.fc
	fn := g.fnOf[fc]
	if fn == nil || fn.Parent() != nil || !fc.Pure || fn.Pkg == nil {
		return false, "no replay: not a pure named function"
	}
	sig := g.sigOf(fc)
	if sig == nil || len(sig.results) != 1 {
		return false, "no replay: needs exactly one result"
	}
	pkg := g.byPath[fn.Pkg.Pkg.Path()]
	if pkg == nil {
		return false, "package not loaded"
	}
	pr := &goPrinter{g: g, pkgPath: fc.PkgPath, pkg: pkg.Types, imports: map[string]string{}, subst: map[string]string{}}
	qual := func(t types.Type) string {
		return types.TypeString(t, func(p *types.Package) string {
			if p == pkg.Types {
				return ""
			}
			pr.imports[p.Name()] = p.Path()
			return p.Name()
		})
	}
	var decls, shown, args []string
	for i, prm := range fn.Params {
		b, ok := prm.Type().Underlying().(*types.Basic)
		if !ok || b.Info()&(types.IsInteger|types.IsBoolean) == 0 {
			return false, "no replay: parameter " + prm.Name() + " is not an integer or boolean"
		}
		if i >= len(o.paramTerms) {
			return false, "no replay: parameter terms not recorded"
		}
		v, ok := vals[strings.Trim(o.paramTerms[i], "|")]
		if !ok {
			// a parameter the model does not mention is irrelevant to the counterexample
			v = "0"
			if b.Info()&types.IsBoolean != 0 {
				v = "false"
			}
		}
		name := sig.params[i].name
		if name == "" || name == "_" {
			name = fmt.Sprintf("p%d", i)
		}
		gt := qual(prm.Type())
		decls = append(decls, fmt.Sprintf("\tvar %s %s = %s", name, gt, goLiteral(gt, v, b.Info()&types.IsBoolean != 0)))
		decls = append(decls, fmt.Sprintf("\t_ = %s", name))
		shown = append(shown, fmt.Sprintf("%s=%s", name, v))
		args = append(args, name)
	}
	call := ""
	if fn.Signature.Recv() != nil {
		if len(args) == 0 {
			return false, "no replay: receiver missing"
		}
		call = fmt.Sprintf("%s.%s(%s)", args[0], fn.Name(), strings.Join(args[1:], ", "))
	} else {
		call = fmt.Sprintf("%s(%s)", fn.Name(), strings.Join(args, ", "))
	}
	decls = append(decls, fmt.Sprintf("\t%s := %s", sig.results[0].name, call), fmt.Sprintf("\t_ = %s", sig.results[0].name))
	// preconditions must hold for the model's inputs (otherwise the input is outside the contract)
	cond := pr.expr(o.clause)
	for _, rq := range fc.Requires {
		cond = "(!(" + pr.expr(rq.E) + ") || " + cond + ")"
	}
	if pr.err != nil {
		return false, "no replay: " + pr.err.Error()
	}
	return runReplayTest(g, fn.Pkg.Pkg.Path(), replaySource(pkg.Types.Name(), pr.imports, decls, cond, o.Func+": "+o.Src, strings.Join(shown, " ")), scratch)
}

var _ = ssa.Function{}
