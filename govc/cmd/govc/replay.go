package main

import "go/types"

func typesNewPointer(t types.Type) types.Type { return types.NewPointer(t) }

// tryReplay attempts to replay a solver model against the real code (per-contract templates). Returns (confirmed, output).
func tryReplay(g *Gen, o *Obligation, r *SolveResult, scratch string) (bool, string) {
	return false, "no replay template for this obligation"
}
