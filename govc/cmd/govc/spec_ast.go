package main

// AST of the contract expression language (DESIGN §3.2).

import (
	"fmt"
	"strings"
)

type Expr interface {
	String() string
}

type (
	EIdent struct{ Name string }
	EInt   struct{ Val string }
	EStr   struct{ Val string } // unquoted value
	EBool  struct{ Val bool }
	ENil   struct{}
	EHash  struct{ Name string } // #i, #visited ...
	EUnary struct {
		Op string
		X  Expr
	}
	EBinary struct {
		Op   string
		X, Y Expr
	}
	ECall struct {
		Fun  Expr
		Args []Expr
	}
	EIndex struct {
		X, I Expr
	}
	ESlice struct {
		X, Lo, Hi Expr // Lo/Hi may be nil
	}
	ESel struct {
		X   Expr
		Sel string
	}
	ETypeAssert struct {
		X Expr
		T *TypeExpr
	}
	EIs struct {
		X Expr
		T *TypeExpr
	}
	EQuant struct {
		Forall bool
		Vars   []QVar
		Body   Expr
	}
	EIte struct {
		C, A, B Expr
	}
	ELet struct {
		Name string
		Val  Expr
		Body Expr
	}
	EOld struct{ X Expr }
)

type QVar struct {
	Name string
	T    *TypeExpr
}

// TypeExpr is a tiny Go type syntax: ident | pkg.ident | *T | []T | map[K]V
type TypeExpr struct {
	Kind string // "name", "ptr", "slice", "map"
	Pkg  string
	Name string
	Elem *TypeExpr
	Key  *TypeExpr
	Args []*TypeExpr // explicit type arguments
}

func (t *TypeExpr) String() string {
	switch t.Kind {
	case "ptr":
		return "*" + t.Elem.String()
	case "slice":
		return "[]" + t.Elem.String()
	case "map":
		return "map[" + t.Key.String() + "]" + t.Elem.String()
	}
	if t.Pkg != "" {
		return t.Pkg + "." + t.Name
	}
	return t.Name
}

func (e *EIdent) String() string { return e.Name }
func (e *EInt) String() string   { return e.Val }
func (e *EStr) String() string   { return fmt.Sprintf("%q", e.Val) }
func (e *EBool) String() string  { return fmt.Sprint(e.Val) }
func (e *ENil) String() string   { return "nil" }
func (e *EHash) String() string  { return "#" + e.Name }
func (e *EUnary) String() string { return e.Op + e.X.String() }
func (e *EBinary) String() string {
	return "(" + e.X.String() + " " + e.Op + " " + e.Y.String() + ")"
}
func (e *ECall) String() string {
	var a []string
	for _, x := range e.Args {
		a = append(a, x.String())
	}
	return e.Fun.String() + "(" + strings.Join(a, ", ") + ")"
}
func (e *EIndex) String() string { return e.X.String() + "[" + e.I.String() + "]" }
func (e *ESlice) String() string {
	lo, hi := "", ""
	if e.Lo != nil {
		lo = e.Lo.String()
	}
	if e.Hi != nil {
		hi = e.Hi.String()
	}
	return e.X.String() + "[" + lo + ":" + hi + "]"
}
func (e *ESel) String() string        { return e.X.String() + "." + e.Sel }
func (e *ETypeAssert) String() string { return e.X.String() + ".(" + e.T.String() + ")" }
func (e *EIs) String() string         { return "(" + e.X.String() + " is " + e.T.String() + ")" }
func (e *EQuant) String() string {
	q := "exists"
	if e.Forall {
		q = "forall"
	}
	var vs []string
	for _, v := range e.Vars {
		vs = append(vs, v.Name+" "+v.T.String())
	}
	return "(" + q + " " + strings.Join(vs, ", ") + " :: " + e.Body.String() + ")"
}
func (e *EIte) String() string {
	return "(if " + e.C.String() + " then " + e.A.String() + " else " + e.B.String() + ")"
}
func (e *ELet) String() string {
	return "(let " + e.Name + " = " + e.Val.String() + " in " + e.Body.String() + ")"
}
func (e *EOld) String() string { return "old(" + e.X.String() + ")" }

// ---------------------------------------------------------------------------
// Contract structures

type Clause struct {
	Kind string // requires, ensures, invariant, assert, assume ...
	E    Expr
	Src  string // source text
	Name string // stable label (ordinal within kind)
}

type LoopSpec struct {
	Ordinal    int
	Invariants []*Clause
	Decreases  Expr
	Modifies   []Expr // optional explicit frame of loop
}

// SiteAction: on call <pattern> [when cond] : action ; action
type SiteAction struct {
	When    string // "call", "aftercall", "return", "store"
	Pattern string // callee pattern, e.g. "(*Environment).handleHooks" or "fsm.Event.Cancel"
	Cond    Expr   // optional guard over arg0.., recv
	Acts    []SiteAct
	Src     string
	Ordinal int
}

type SiteAct struct {
	Idx  Expr   // for set on a ghost map: Var[Idx] = E
	Kind string // "assert", "assume", "set"
	Var  string // for set
	E    Expr
	Src  string
}

type GhostVar struct {
	Name string
	T    *TypeExpr
	Init Expr
}

type GhostFunc struct {
	Name    string
	Params  []QVar
	Result  *TypeExpr
	Body    Expr // nil => uninterpreted
	Rec     bool
	Fuel    bool // recursive, encoded as an uninterpreted function with a fuel-limited unfolding axiom
	Axioms  []*Clause
	Src     string
	PkgPath string
}

type Lemma struct {
	IndVar  string // induction variable (integer), "" if none
	IndFrom Expr
	Name    string
	Props   []string
	E       Expr
	Src     string
	PkgPath string
	Uses    []string
}

type FuncContract struct {
	PkgPath     string // package in which the contract was written
	Header      string // Go func header text ("func (t *T) m(a int) (r bool)") or closure spec
	Closure     string // for closures: "<outer func key>#<role>"
	Key         string // resolved function key
	Trusted     bool
	Pure        bool // no side effects; callers may use result as function of args (+heap epoch)
	Inline      bool // pure & loop free: body compiled into a define-fun
	Props       []string
	Requires    []*Clause
	Ensures     []*Clause
	Modifies    []Expr
	ModAll      bool
	HasMod      bool
	Loops       map[int]*LoopSpec
	Sites       []*SiteAction
	Ghosts      []*GhostVar
	Safety      map[string]bool // nil, index, nilmap, div, typeassert, overflow
	NoVerify    bool            // contract only used by callers (body not checked): counts as assumed
	ResNames    []string        // names for results (from header)
	Opts        map[string]string
	Uses        []string    // lemmas assumed at function entry
	GoFrames    bool        // generate goroutine frame obligations for every go statement of the function
	ClosedWorld bool        // every caller in the repository must itself be under a verified contract
	Literals    [][2]string // structural obligations on composite literals: type, canonical text
	FieldOf     string      // funcfield contracts: struct type name
	FieldName   string      //                      field name
	SrcFile     string
	HeaderPos   string
}
