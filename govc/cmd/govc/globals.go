package main

import (
	"fmt"
	"go/types"
	"strings"

	"golang.org/x/tools/go/ssa"
)

// runGlobalInit symbolically executes the slice of the package initialiser that builds the named globals
// (composite literals: MakeMap/MapUpdate/Alloc/Store/MakeSlice ...). Assumption recorded: the global is not
// modified after initialisation (checked separately by a closed-world frame scan, see frameGlobal).
func (fr *Frame) runGlobalInit(names []string, st *State) error {
	vc := fr.vc
	fr.initGlobals = nil
	for _, qn := range names {
		qn = strings.TrimSpace(qn)
		parts := strings.SplitN(qn, ".", 2)
		var glob *ssa.Global
		var pkg *ssa.Package
		for path, sp := range vc.g.ssaPkgs {
			if len(parts) == 2 && (sp.Pkg.Name() == parts[0] || path == parts[0]) {
				if g, ok := sp.Members[parts[1]].(*ssa.Global); ok {
					if fr.fn.Pkg == nil || fr.fn.Pkg == sp || glob == nil {
						glob, pkg = g, sp
					}
				}
			}
		}
		if glob == nil {
			return fmt.Errorf("init-globals: global %s not found", qn)
		}
		initFn := pkg.Func("init")
		if initFn == nil {
			return fmt.Errorf("init-globals: no init function in %s", pkg.Pkg.Path())
		}
		// backward slice from stores to the global
		need := map[ssa.Value]bool{}
		var instrs []ssa.Instruction
		for _, b := range initFn.Blocks {
			instrs = append(instrs, b.Instrs...)
		}
		changed := true
		include := map[ssa.Instruction]bool{}
		addVal := func(v ssa.Value) {
			if _, isConst := v.(*ssa.Const); isConst {
				return
			}
			if !need[v] {
				need[v] = true
				changed = true
			}
		}
		for changed {
			changed = false
			for _, ins := range instrs {
				switch x := ins.(type) {
				case *ssa.Store:
					if x.Addr == ssa.Value(glob) || need[x.Addr] || needRoot(need, x.Addr) {
						if !include[ins] {
							include[ins] = true
							changed = true
						}
						addVal(x.Val)
						addVal(x.Addr)
					}
				case *ssa.MapUpdate:
					if need[x.Map] {
						if !include[ins] {
							include[ins] = true
							changed = true
						}
						addVal(x.Key)
						addVal(x.Value)
					}
				default:
					if v, ok := ins.(ssa.Value); ok && need[v] {
						if !include[ins] {
							include[ins] = true
							changed = true
						}
						switch ins.(type) {
						case *ssa.Call:
							return fmt.Errorf("init-globals: initialiser of %s calls a function (unsupported)", qn)
						}
						var ops []*ssa.Value
						for _, op := range ins.Operands(ops) {
							if *op != nil {
								addVal(*op)
							}
						}
					}
				}
			}
		}
		sub := vc.newFrame(initFn, fr)
		sub.prefix = fmt.Sprintf("init%d.", vc.frames)
		pc := "true"
		n := 0
		for _, ins := range instrs {
			if include[ins] {
				pc = sub.execInstr(ins, pc, st)
				n++
				if vc.failed != nil {
					return vc.failed
				}
			}
		}
		if n == 0 {
			return fmt.Errorf("init-globals: no initialising stores found for %s", qn)
		}
		fr.initGlobals = append(fr.initGlobals, glob)
		vc.note("global %s: value taken from the package initialiser (%d instructions); assumed not modified afterwards (see frame:global obligation)", qn, n)
	}
	return nil
}

func needRoot(need map[ssa.Value]bool, v ssa.Value) bool {
	for {
		switch x := v.(type) {
		case *ssa.FieldAddr:
			v = x.X
		case *ssa.IndexAddr:
			v = x.X
		default:
			return need[v]
		}
	}
}

// globalWriters: functions other than the package initialiser that may write the global or maps/slices of its type.
func (g *Gen) globalWriters(glob *ssa.Global) []string {
	var out []string
	elem := glob.Type().Underlying().(*types.Pointer).Elem()
	typesOf := map[string]bool{}
	var collect func(t types.Type)
	collect = func(t types.Type) {
		switch u := t.Underlying().(type) {
		case *types.Map:
			typesOf[types.TypeString(t, nil)] = true
			collect(u.Elem())
		case *types.Slice:
			typesOf[types.TypeString(t, nil)] = true
			collect(u.Elem())
		}
	}
	collect(elem)
	for fn := range ssaAllFunctions(g.prog) {
		if fn.Pkg == nil || fn.Synthetic != "" && fn.Name() == "init" {
			continue
		}
		if !strings.HasPrefix(fn.Pkg.Pkg.Path(), "github.com/AliceO2Group/Control") {
			continue
		}
		for _, b := range fn.Blocks {
			for _, ins := range b.Instrs {
				switch x := ins.(type) {
				case *ssa.Store:
					if x.Addr == ssa.Value(glob) {
						out = append(out, fn.String()+": store to global")
					}
				case *ssa.MapUpdate:
					if typesOf[types.TypeString(x.Map.Type(), nil)] {
						out = append(out, fn.String()+": map update on "+types.TypeString(x.Map.Type(), nil))
					}
				}
			}
		}
	}
	return out
}
